//! C16: dump every declared / derived constant of a configuration through the public traits, for
//! validation against its defining equation by spec/trace/Trace_Config.tla.
use crate::curve::CurveDrv;
use crate::elem::Elem;
use crate::util::*;
use ark_ec::scalar_mul::glv::GLVConfig;
use ark_ec::short_weierstrass::{Affine as SWAffine, SWCurveConfig};
use ark_ec::{AffineRepr, CurveConfig, CurveGroup, PrimeGroup};
use ark_ff::{
    fp12_2over3over2::Fp12Config, fp6_2over3, fp6_3over2, FftField, Field, Fp, Fp2Config, Fp3Config, Fp4Config, MontBackend, MontConfig, PrimeField,
};
use num_bigint::BigUint;
use serde_json::{json, Value};

fn list<F: Elem>(c: &[F]) -> Value { Value::Array(c.iter().map(|x| x.to_abs(true).unwrap_or(json!("non-canonical"))).collect()) }
fn big(n: &BigUint) -> Value { num_to_json(n, true) }

pub fn dump_fp<T: MontConfig<N>, const N: usize>(name: &str) -> Value {
    type F<T, const N: usize> = Fp<MontBackend<T, N>, N>;
    let mut e = json!({"op": "fp", "name": name, "nlimbs": N,
        "p": big(&limbs_to_biguint(&T::MODULUS.0)), "bits": F::<T, N>::MODULUS_BIT_SIZE,
        "r": big(&limbs_to_biguint(&T::R.0)), "r2": big(&limbs_to_biguint(&T::R2.0)), "inv": big(&BigUint::from(T::INV)),
        "gen": <F<T, N> as FftField>::GENERATOR.to_abs(true).unwrap_or(json!("non-canonical")),
        "two_adicity": <F<T, N> as FftField>::TWO_ADICITY,
        "two_adic_root": <F<T, N> as FftField>::TWO_ADIC_ROOT_OF_UNITY.to_abs(true).unwrap_or(json!("non-canonical")),
        "trace": big(&limbs_to_biguint(<F<T, N> as PrimeField>::TRACE.as_ref())),
        "trace_minus_one_div_two": big(&limbs_to_biguint(<F<T, N> as PrimeField>::TRACE_MINUS_ONE_DIV_TWO.as_ref())),
        "modulus_minus_one_div_two": big(&limbs_to_biguint(<F<T, N> as PrimeField>::MODULUS_MINUS_ONE_DIV_TWO.as_ref())),
        "has_spare_bit": T::MODULUS_HAS_SPARE_BIT});
    if let (Some(b), Some(k), Some(root)) = (<F<T, N> as FftField>::SMALL_SUBGROUP_BASE, <F<T, N> as FftField>::SMALL_SUBGROUP_BASE_ADICITY, <F<T, N> as FftField>::LARGE_SUBGROUP_ROOT_OF_UNITY) {
        e["small_base"] = json!(b); e["small_adicity"] = json!(k); e["large_root"] = root.to_abs(true).unwrap_or(json!("non-canonical"));
    }
    e
}
fn ext_header<F: Elem>(name: &str, kind: &str) -> Value {
    json!({"op": "ext", "name": name, "kind": kind, "p": big(&F::modulus()), "lv": F::levels(true)})
}
pub fn dump_fp2<P: Fp2Config>(name: &str) -> Value where P::Fp: Elem {
    let mut e = ext_header::<ark_ff::Fp2<P>>(name, "fp2"); e["c1"] = list(P::FROBENIUS_COEFF_FP2_C1); e }
pub fn dump_fp3<P: Fp3Config>(name: &str) -> Value where P::Fp: Elem {
    let mut e = ext_header::<ark_ff::Fp3<P>>(name, "fp3");
    e["c1"] = list(P::FROBENIUS_COEFF_FP3_C1); e["c2"] = list(P::FROBENIUS_COEFF_FP3_C2);
    e["two_adicity"] = json!(P::TWO_ADICITY); e["trace_minus_one_div_two"] = big(&limbs_to_biguint(P::TRACE_MINUS_ONE_DIV_TWO));
    e["qnr_to_t"] = P::QUADRATIC_NONRESIDUE_TO_T.to_abs(true).unwrap_or(json!("non-canonical")); e }
pub fn dump_fp4<P: Fp4Config>(name: &str) -> Value where <P::Fp2Config as Fp2Config>::Fp: Elem {
    let mut e = ext_header::<ark_ff::Fp4<P>>(name, "fp4"); e["c1"] = list(P::FROBENIUS_COEFF_FP4_C1); e }
pub fn dump_fp6_3over2<P: fp6_3over2::Fp6Config>(name: &str) -> Value where <P::Fp2Config as Fp2Config>::Fp: Elem {
    let mut e = ext_header::<fp6_3over2::Fp6<P>>(name, "fp6_3over2"); e["c1"] = list(P::FROBENIUS_COEFF_FP6_C1); e["c2"] = list(P::FROBENIUS_COEFF_FP6_C2); e }
pub fn dump_fp6_2over3<P: fp6_2over3::Fp6Config>(name: &str) -> Value where <P::Fp3Config as Fp3Config>::Fp: Elem {
    let mut e = ext_header::<fp6_2over3::Fp6<P>>(name, "fp6_2over3"); e["c1"] = list(P::FROBENIUS_COEFF_FP6_C1); e }
pub fn dump_fp12<P: Fp12Config>(name: &str) -> Value where <<P::Fp6Config as fp6_3over2::Fp6Config>::Fp2Config as Fp2Config>::Fp: Elem {
    let mut e = ext_header::<ark_ff::Fp12<P>>(name, "fp12"); e["c1"] = list(P::FROBENIUS_COEFF_FP12_C1); e }

pub fn dump_curve<D: CurveDrv>(name: &str) -> Value {
    let mut e = D::params(true);
    let g: D::G = <D::G as PrimeGroup>::generator();
    let r: BigUint = <D::S as PrimeField>::MODULUS.into();
    type Cfg<D> = <<D as CurveDrv>::G as CurveGroup>::Config;
    e["op"] = json!("curve"); e["name"] = json!(name);
    e["p"] = big(&D::B::modulus()); e["lv"] = json!(D::B::levels(true));
    e["gen"] = D::aff_abs(&g.into_affine(), true).unwrap_or(json!("non-canonical"));
    e["r"] = big(&r); e["h"] = big(&limbs_to_biguint(<Cfg<D> as CurveConfig>::COFACTOR));
    e["cofactor_inv"] = big(&limbs_to_biguint(<Cfg<D> as CurveConfig>::COFACTOR_INV.into_bigint().as_ref()));
    e
}
pub fn dump_glv<P: GLVConfig>(name: &str) -> Value where P::BaseField: Elem {
    let g = SWAffine::<P>::generator();
    let phi = P::endomorphism_affine(&g);
    let coeffs: Vec<Value> = P::SCALAR_DECOMP_COEFFS.iter().map(|(pos, v)| json!({"pos": pos, "v": big(&limbs_to_biguint(v.as_ref()))})).collect();
    let mut e = crate::curve::SWDrv::<P>::params(true);
    e["op"] = json!("glv"); e["name"] = json!(name);
    e["p"] = big(&P::BaseField::modulus()); e["lv"] = json!(P::BaseField::levels(true));
    e["r"] = big(&<P::ScalarField as PrimeField>::MODULUS.into()); e["h"] = big(&limbs_to_biguint(P::COFACTOR));
    e["gen"] = crate::curve::SWDrv::<P>::aff_abs(&g, true).unwrap();
    e["phi_gen"] = crate::curve::SWDrv::<P>::aff_abs(&phi, true).unwrap_or(json!("non-canonical"));
    e["lambda"] = big(&limbs_to_biguint(P::LAMBDA.into_bigint().as_ref()));
    e["endo_coeffs"] = list(P::ENDO_COEFFS);
    e["decomp"] = Value::Array(coeffs);
    e
}
pub fn dump_wb<P: ark_ec::hashing::curve_maps::wb::WBConfig>(name: &str) -> Value where P::BaseField: Elem {
    use ark_ec::hashing::curve_maps::swu::SWUConfig;
    let iso = P::ISOGENY_MAP;
    let gi = SWAffine::<P::IsogenousCurve>::generator();
    json!({"op": "wb", "name": name, "p": big(&P::BaseField::modulus()), "lv": P::BaseField::levels(true),
        "a": P::COEFF_A.to_abs(true).unwrap(), "b": P::COEFF_B.to_abs(true).unwrap(),
        "iso_a": <P::IsogenousCurve as SWCurveConfig>::COEFF_A.to_abs(true).unwrap(), "iso_b": <P::IsogenousCurve as SWCurveConfig>::COEFF_B.to_abs(true).unwrap(),
        "zeta": <P::IsogenousCurve as SWUConfig>::ZETA.to_abs(true).unwrap(),
        "iso": {"xn": list(iso.x_map_numerator), "xd": list(iso.x_map_denominator), "yn": list(iso.y_map_numerator), "yd": list(iso.y_map_denominator)},
        "iso_gen": crate::curve::SWDrv::<P::IsogenousCurve>::aff_abs(&gi, true).unwrap(),
        "r": big(&<P::ScalarField as PrimeField>::MODULUS.into()), "h": big(&limbs_to_biguint(P::COFACTOR))})
}

pub fn write_dump(name: &str, events: Vec<Value>, out: &mut dyn std::io::Write) -> Report {
    let mut rep = Report::default();
    writeln!(out, "{}", json!({"op": "reset", "cfg": name})).unwrap();
    for e in events {
        rep.op(e["op"].as_str().unwrap()); rep.evaluations += 1; rep.nontrivial.insert(format!("{}:{}", e["op"], e["name"]));
        rep.sample(&json!({"op": e["op"], "name": e["name"]}));
        writeln!(out, "{}", e).unwrap();
    }
    rep.transitions = rep.evaluations;
    rep
}

// ---- declared attributes (parsed from the source text by lib/gen_config.py)
pub struct Decl { pub modulus: &'static str, pub generator: &'static str, pub small: Option<(u64, u32)> }
pub fn with_decl(mut e: Value, d: &Decl) -> Value {
    let m = BigUint::parse_bytes(d.modulus.as_bytes(), 10).expect("decimal modulus");
    let g = BigUint::parse_bytes(d.generator.as_bytes(), 10).expect("decimal generator");
    let mut j = json!({"modulus": big(&m), "generator": big(&g)});
    if let Some((b, k)) = d.small { j["small_base"] = json!(b); j["small_adicity"] = json!(k); }
    e["decl"] = j; e
}

// ---- sampled points
fn sample_points<D: CurveDrv>(seed: u64, n: usize) -> Vec<<D::G as CurveGroup>::Affine> {
    let mut rng = Rng(seed ^ 0xC16C16);
    let mut v = Vec::new();
    let mut k = 0u64;
    while v.len() < n && k < 400 {
        // small coordinates first (1, 2, ...), then random ones
        let c = if k < 8 { D::B::from(k + 1) } else { crate::curve::random_base_pub::<D::B>(&mut rng) };
        if let Some(a) = D::from_coord(c, rng.coin()) { v.push(a); }
        k += 1;
    }
    v
}
pub fn dump_curve_pts<D: CurveDrv>(name: &str, seed: u64) -> Value {
    let mut e = dump_curve::<D>(name);
    e["pts"] = Value::Array(sample_points::<D>(seed, 3).iter().map(|a| D::aff_abs(a, true).unwrap()).collect());
    e
}
pub fn dump_glv_pts<P: GLVConfig>(name: &str, seed: u64) -> Value where P::BaseField: Elem {
    use ark_ec::short_weierstrass::Projective;
    type D<P> = crate::curve::SWDrv<P>;
    let mut e = dump_glv::<P>(name);
    let pts: Vec<Value> = sample_points::<D<P>>(seed, 2).iter().map(|a| {
        let s: SWAffine<P> = P::clear_cofactor(a);
        let _: Projective<P> = s.into();
        json!([D::<P>::aff_abs(&s, true).unwrap(), D::<P>::aff_abs(&P::endomorphism_affine(&s), true).unwrap_or(json!("non-canonical"))])
    }).collect();
    e["pts"] = Value::Array(pts);
    e
}
pub fn dump_wb_pts<P: ark_ec::hashing::curve_maps::wb::WBConfig>(name: &str, seed: u64) -> Value where P::BaseField: Elem {
    type D<P> = crate::curve::SWDrv<P>;
    let mut e = dump_wb::<P>(name);
    e["pts"] = Value::Array(sample_points::<D<P::IsogenousCurve>>(seed, 3).iter().map(|a| D::<P::IsogenousCurve>::aff_abs(a, true).unwrap()).collect());
    e
}

// ---- pairing families
fn tw(t: ark_ec::bls12::TwistType) -> &'static str { match t { ark_ec::bls12::TwistType::M => "M", ark_ec::bls12::TwistType::D => "D" } }
pub fn dump_bls12<P: ark_ec::bls12::Bls12Config>(name: &str) -> Value where P::Fp: Elem {
    json!({"op": "bls12", "name": name, "x": big(&limbs_to_biguint(P::X)), "x_pos": !P::X_IS_NEGATIVE,
        "p": big(&P::Fp::modulus()), "lv": <ark_ff::Fp12<P::Fp12Config> as Elem>::levels(true),
        "r": big(&<<P::G1Config as CurveConfig>::ScalarField as PrimeField>::MODULUS.into()),
        "twist": tw(P::TWIST_TYPE),
        "g1_a": <P::G1Config as SWCurveConfig>::COEFF_A.to_abs(true).unwrap(), "g1_b": <P::G1Config as SWCurveConfig>::COEFF_B.to_abs(true).unwrap(),
        "g2_a": <P::G2Config as SWCurveConfig>::COEFF_A.to_abs(true).unwrap(), "g2_b": <P::G2Config as SWCurveConfig>::COEFF_B.to_abs(true).unwrap()})
}
pub fn dump_bn<P: ark_ec::bn::BnConfig>(name: &str) -> Value where P::Fp: Elem {
    let t = match P::TWIST_TYPE { ark_ec::bn::TwistType::M => "M", ark_ec::bn::TwistType::D => "D" };
    json!({"op": "bn", "name": name, "x": big(&limbs_to_biguint(P::X)), "x_pos": !P::X_IS_NEGATIVE,
        "p": big(&P::Fp::modulus()), "lv": <ark_ff::Fp12<P::Fp12Config> as Elem>::levels(true),
        "r": big(&<<P::G1Config as CurveConfig>::ScalarField as PrimeField>::MODULUS.into()),
        "twist": t, "ate": P::ATE_LOOP_COUNT,
        "twist_mul_by_q_x": P::TWIST_MUL_BY_Q_X.to_abs(true).unwrap(), "twist_mul_by_q_y": P::TWIST_MUL_BY_Q_Y.to_abs(true).unwrap(),
        "g1_a": <P::G1Config as SWCurveConfig>::COEFF_A.to_abs(true).unwrap(), "g1_b": <P::G1Config as SWCurveConfig>::COEFF_B.to_abs(true).unwrap(),
        "g2_a": <P::G2Config as SWCurveConfig>::COEFF_A.to_abs(true).unwrap(), "g2_b": <P::G2Config as SWCurveConfig>::COEFF_B.to_abs(true).unwrap()})
}
pub fn dump_mnt4<P: ark_ec::mnt4::MNT4Config>(name: &str) -> Value where P::Fp: Elem {
    json!({"op": "mnt", "k": 4, "name": name, "p": big(&P::Fp::modulus()), "lv": <ark_ff::Fp2<P::Fp2Config> as Elem>::levels(true),
        "r": big(&<P::Fr as PrimeField>::MODULUS.into()), "h": big(&limbs_to_biguint(<P::G1Config as CurveConfig>::COFACTOR)),
        "twist": P::TWIST.to_abs(true).unwrap(), "twist_a": P::TWIST_COEFF_A.to_abs(true).unwrap(),
        "ate": P::ATE_LOOP_COUNT, "ate_neg": P::ATE_IS_LOOP_COUNT_NEG,
        "w1": big(&limbs_to_biguint(P::FINAL_EXPONENT_LAST_CHUNK_1.as_ref())), "w0": big(&limbs_to_biguint(P::FINAL_EXPONENT_LAST_CHUNK_ABS_OF_W0.as_ref())), "w0_neg": P::FINAL_EXPONENT_LAST_CHUNK_W0_IS_NEG,
        "g1_a": <P::G1Config as SWCurveConfig>::COEFF_A.to_abs(true).unwrap(), "g1_b": <P::G1Config as SWCurveConfig>::COEFF_B.to_abs(true).unwrap(),
        "g2_a": <P::G2Config as SWCurveConfig>::COEFF_A.to_abs(true).unwrap(), "g2_b": <P::G2Config as SWCurveConfig>::COEFF_B.to_abs(true).unwrap()})
}
pub fn dump_mnt6<P: ark_ec::mnt6::MNT6Config>(name: &str) -> Value where P::Fp: Elem {
    json!({"op": "mnt", "k": 6, "name": name, "p": big(&P::Fp::modulus()), "lv": <ark_ff::Fp3<P::Fp3Config> as Elem>::levels(true),
        "r": big(&<P::Fr as PrimeField>::MODULUS.into()), "h": big(&limbs_to_biguint(<P::G1Config as CurveConfig>::COFACTOR)),
        "twist": P::TWIST.to_abs(true).unwrap(), "twist_a": P::TWIST_COEFF_A.to_abs(true).unwrap(),
        "ate": P::ATE_LOOP_COUNT, "ate_neg": P::ATE_IS_LOOP_COUNT_NEG,
        "w1": big(&limbs_to_biguint(P::FINAL_EXPONENT_LAST_CHUNK_1.as_ref())), "w0": big(&limbs_to_biguint(P::FINAL_EXPONENT_LAST_CHUNK_ABS_OF_W0.as_ref())), "w0_neg": P::FINAL_EXPONENT_LAST_CHUNK_W0_IS_NEG,
        "g1_a": <P::G1Config as SWCurveConfig>::COEFF_A.to_abs(true).unwrap(), "g1_b": <P::G1Config as SWCurveConfig>::COEFF_B.to_abs(true).unwrap(),
        "g2_a": <P::G2Config as SWCurveConfig>::COEFF_A.to_abs(true).unwrap(), "g2_b": <P::G2Config as SWCurveConfig>::COEFF_B.to_abs(true).unwrap()})
}
pub fn dump_bw6<P: ark_ec::bw6::BW6Config>(name: &str) -> Value where P::Fp: Elem {
    let t = match P::TWIST_TYPE { ark_ec::bw6::TwistType::M => "M", ark_ec::bw6::TwistType::D => "D" };
    json!({"op": "bw6", "name": name, "x": big(&limbs_to_biguint(P::X.as_ref())), "x_pos": !P::X_IS_NEGATIVE,
        "x_minus_1_div_3": big(&limbs_to_biguint(P::X_MINUS_1_DIV_3.as_ref())),
        "ate1": big(&limbs_to_biguint(P::ATE_LOOP_COUNT_1)), "ate1_neg": P::ATE_LOOP_COUNT_1_IS_NEGATIVE,
        "ate2": P::ATE_LOOP_COUNT_2, "ate2_neg": P::ATE_LOOP_COUNT_2_IS_NEGATIVE,
        "p": big(&P::Fp::modulus()), "lv": <fp6_2over3::Fp6<P::Fp6Config> as Elem>::levels(true),
        "r": big(&<<P::G1Config as CurveConfig>::ScalarField as PrimeField>::MODULUS.into()),
        "twist": t,
        "g1_a": <P::G1Config as SWCurveConfig>::COEFF_A.to_abs(true).unwrap(), "g1_b": <P::G1Config as SWCurveConfig>::COEFF_B.to_abs(true).unwrap(),
        "g2_a": <P::G2Config as SWCurveConfig>::COEFF_A.to_abs(true).unwrap(), "g2_b": <P::G2Config as SWCurveConfig>::COEFF_B.to_abs(true).unwrap()})
}

pub fn dump_mont<P: ark_ec::twisted_edwards::MontCurveConfig>(name: &str) -> Value where P::BaseField: Elem {
    use ark_ec::twisted_edwards::TECurveConfig;
    json!({"op": "mont", "name": name, "p": big(&P::BaseField::modulus()), "lv": P::BaseField::levels(true),
        "a": <P::TECurveConfig as TECurveConfig>::COEFF_A.to_abs(true).unwrap(), "d": <P::TECurveConfig as TECurveConfig>::COEFF_D.to_abs(true).unwrap(),
        "A": <P as ark_ec::twisted_edwards::MontCurveConfig>::COEFF_A.to_abs(true).unwrap(), "B": <P as ark_ec::twisted_edwards::MontCurveConfig>::COEFF_B.to_abs(true).unwrap()})
}
pub fn dump_ell2<P: ark_ec::hashing::curve_maps::elligator2::Elligator2Config>(name: &str) -> Value where P::BaseField: Elem {
    json!({"op": "ell2", "name": name, "p": big(&P::BaseField::modulus()), "lv": P::BaseField::levels(true),
        "a": <P as ark_ec::twisted_edwards::TECurveConfig>::COEFF_A.to_abs(true).unwrap(), "d": <P as ark_ec::twisted_edwards::TECurveConfig>::COEFF_D.to_abs(true).unwrap(),
        "A": <P as ark_ec::twisted_edwards::MontCurveConfig>::COEFF_A.to_abs(true).unwrap(), "B": <P as ark_ec::twisted_edwards::MontCurveConfig>::COEFF_B.to_abs(true).unwrap(),
        "Z": P::Z.to_abs(true).unwrap(), "one_over_b_sq": P::ONE_OVER_COEFF_B_SQUARE.to_abs(true).unwrap(), "a_over_b": P::COEFF_A_OVER_COEFF_B.to_abs(true).unwrap()})
}
