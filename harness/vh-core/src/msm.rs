//! Driver for MsmMachine: one-shot multi-scalar multiplications (all entry points, both bucket
//! methods through the verification hooks) and the incremental Pippenger accumulators.
//! The specification works in Z_r; a base with discrete logarithm d is realised as d*G.
use crate::curve::CurveDrv;
use crate::util::*;
use ark_ec::scalar_mul::variable_base::{verif_hooks, ChunkedPippenger, HashMapPippenger, VariableBaseMSM};
use ark_ec::{CurveGroup, PrimeGroup};
use ark_ff::{PrimeField, Zero};
use num_bigint::BigUint;
use serde_json::{json, Value};

type Aff<D> = <<D as CurveDrv>::G as CurveGroup>::Affine;

fn scalar_of<S: PrimeField>(k: &BigUint) -> S { S::from_le_bytes_mod_order(&k.to_bytes_le()) }
fn dlog_point<D: CurveDrv>(d: &BigUint) -> D::G { <D::G as PrimeGroup>::generator().mul_bigint(d.to_u64_digits()) }

pub fn exec_event<D: CurveDrv>(ev: &Value, big: bool) -> Vec<(String, Result<Value, String>)>
where D::G: VariableBaseMSM {
    let op = ev["op"].as_str().expect("op");
    let mut out = Vec::new();
    let r_mod: BigUint = D::S::MODULUS.into();
    macro_rules! run { ($name:expr, $body:expr) => {{ let r: Result<Value, String> = guarded(|| $body).and_then(|x| x); out.push(($name.to_string(), r)); }}; }
    // compare a group element with (dlog mod r) * G; returns the ret value the spec expects
    let as_ret = move |g: D::G, want: &Value| -> Result<Value, String> {
        let w = num_from_json(want, big);
        let exp = dlog_point::<D>(&(w % &r_mod));
        if g == exp && g.into_affine() == exp.into_affine() { Ok(want.clone()) } else { Err(format!("wrong sum: got {:?}", D::proj_abs(&g, big))) }
    };
    let nums = |j: &Value| -> Vec<BigUint> { j.as_array().unwrap().iter().map(|x| num_from_json(x, big)).collect() };
    match op {
        "msm" => {
            let kind = ev["kind"].as_str().unwrap();
            let bases: Vec<Aff<D>> = nums(&ev["ds"]).iter().map(|d| dlog_point::<D>(d).into_affine()).collect();
            let scalars: Vec<D::S> = nums(&ev["ks"]).iter().map(scalar_of::<D::S>).collect();
            let bigints: Vec<<D::S as PrimeField>::BigInt> = scalars.iter().map(|s| s.into_bigint()).collect();
            let want = &ev["ret"];
            let want_ok = want.get("ok").cloned();
            match kind {
                "checked" => run!("msm", match D::G::msm(&bases, &scalars) {
                    Ok(g) => match &want_ok { Some(w) => as_ret(g, w).map(|v| json!({"ok": v})), None => Err("returned Ok for mismatched lengths".into()) },
                    Err(n) => Ok(json!({"err": n})) }),
                "unchecked" => run!("msm_unchecked", as_ret(D::G::msm_unchecked(&bases, &scalars), want_ok.as_ref().unwrap()).map(|v| json!({"ok": v}))),
                "bigint" => run!("msm_bigint", as_ret(D::G::msm_bigint(&bases, &bigints), want_ok.as_ref().unwrap()).map(|v| json!({"ok": v}))),
                "plain_buckets" => run!("hook_msm_bigint_plain", as_ret(verif_hooks::msm_bigint_plain::<D::G>(&bases, &bigints), want_ok.as_ref().unwrap()).map(|v| json!({"ok": v}))),
                "signed_buckets" => run!("hook_msm_bigint_signed", as_ret(verif_hooks::msm_bigint_signed::<D::G>(&bases, &bigints), want_ok.as_ref().unwrap()).map(|v| json!({"ok": v}))),
                _ => { if bases.len() == scalars.len() {
                    run!("msm_chunks", as_ret(D::G::msm_chunks(&bases.as_slice(), &scalars.as_slice()), want_ok.as_ref().unwrap()).map(|v| json!({"ok": v}))) } }
            }
        }
        "finalize" => {
            let kind = ev["kind"].as_str().unwrap();
            let cap = ev["cap"].as_u64().unwrap() as usize;
            let opsv: Vec<(Aff<D>, D::S)> = ev["ops"].as_array().unwrap().iter().map(|o| {
                (dlog_point::<D>(&num_from_json(&o[0], big)).into_affine(), scalar_of::<D::S>(&num_from_json(&o[1], big))) }).collect();
            let want = &ev["ret"];
            if kind == "chunked" {
                run!("chunked_new", { let mut a = ChunkedPippenger::<D::G>::new(cap); for (b, s) in &opsv { a.add(b, s.into_bigint()); } as_ret(a.finalize(), want) });
                run!("chunked_with_size", { let mut a = ChunkedPippenger::<D::G>::with_size(cap); for (b, s) in &opsv { a.add(*b, &s.into_bigint()); } as_ret(a.finalize(), want) });
            } else {
                run!("hashmap_new", { let mut a = HashMapPippenger::<D::G>::new(cap); for (b, s) in &opsv { a.add(b, s); } as_ret(a.finalize(), want) });
            }
        }
        _ => panic!("unknown msm event {op}"),
    }
    out
}

pub fn replay<D: CurveDrv>(trans: impl Iterator<Item = Value>, big: bool) -> Report
where D::G: VariableBaseMSM {
    let mut rep = Report::default();
    for t in trans {
        rep.transitions += 1;
        let ev = &t["ev"];
        rep.op(ev["op"].as_str().unwrap());
        if rep.transitions % 997 == 1 { rep.sample(&t); }
        intent(&t);
        let want = ev["ret"].clone();
        let mut ok = true;
        for (name, res) in exec_event::<D>(ev, big) {
            rep.evaluations += 1;
            match res {
                Ok(ret) => if ret != want { ok = false; rep.mismatch(json!({"transition": t, "variant": name, "got_ret": ret})); },
                Err(e) => { ok = false; rep.mismatch(json!({"transition": t, "variant": name, "error": e})); }
            }
        }
        let nontriv = want.get("ok").map_or(want.as_u64().map_or(false, |x| x != 0), |x| *x != json!(0));
        if ok && nontriv { rep.nontrivial.insert(format!("{}", ev)); }
    }
    rep
}
