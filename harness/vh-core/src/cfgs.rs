//! Full-size configurations: shipped test-curves fields plus the moduli zoo (gen_zoo.rs).
#[macro_export]
macro_rules! with_big_field {
    ($id:expr, $func:ident ( $($arg:expr),* )) => {
        match $id {
            "bls12_381_fq" => $func::<ark_test_curves::bls12_381::Fq>($($arg),*),
            "bls12_381_fr" => $func::<ark_test_curves::bls12_381::Fr>($($arg),*),
            "bls12_381_fq2" => $func::<ark_test_curves::bls12_381::Fq2>($($arg),*),
            "bls12_381_fq6" => $func::<ark_test_curves::bls12_381::Fq6>($($arg),*),
            "bls12_381_fq12" => $func::<ark_test_curves::bls12_381::Fq12>($($arg),*),
            "mnt4_753_fq" => $func::<ark_test_curves::mnt4_753::Fq>($($arg),*),
            "mnt4_753_fr" => $func::<ark_test_curves::mnt4_753::Fr>($($arg),*),
            "mnt6_753_fq3" => $func::<ark_test_curves::mnt6_753::Fq3>($($arg),*),
            "bn384_fq" => $func::<ark_test_curves::bn384_small_two_adicity::Fq>($($arg),*),
            "bn384_fr" => $func::<ark_test_curves::bn384_small_two_adicity::Fr>($($arg),*),
            "secp256k1_fq" => $func::<ark_test_curves::secp256k1::Fq>($($arg),*),
            "secp256k1_fr" => $func::<ark_test_curves::secp256k1::Fr>($($arg),*),
            "ed_on_bls12_381_fr" => $func::<ark_test_curves::ed_on_bls12_381::Fr>($($arg),*),
            "fp128_fq" => $func::<ark_test_curves::fp128::Fq>($($arg),*),
            other => $crate::with_zoo_field!(other, $func($($arg),*)),
        }
    };
}
