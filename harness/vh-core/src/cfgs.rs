//! Full-size configurations: shipped test-curves fields plus the moduli zoo (gen_zoo.rs).
#[macro_export]
macro_rules! with_big_field {
    ($id:expr, $func:ident ( $($arg:expr),* )) => {
        match $id {
            "bls12_381_fq" => $func::<ark_test_curves::bls12_381::Fq>($($arg),*),
            "bls12_381_fr" => $func::<ark_test_curves::bls12_381::Fr>($($arg),*),
            "bls12_381_fq2" => $func::<ark_test_curves::bls12_381::Fq2>($($arg),*),
            "bls12_381_fq6" => $func::<ark_test_curves::bls12_381::Fq6>($($arg),*),
            "bls12_381_fq12" => $func::<ark_test_curves::bls12_381::Fq12>($($arg),*),
            "mnt4_753_fq" => $func::<ark_test_curves::mnt4_753::Fq>($($arg),*),
            "mnt4_753_fr" => $func::<ark_test_curves::mnt4_753::Fr>($($arg),*),
            "mnt6_753_fq3" => $func::<ark_test_curves::mnt6_753::Fq3>($($arg),*),
            "bn384_fq" => $func::<ark_test_curves::bn384_small_two_adicity::Fq>($($arg),*),
            "bn384_fr" => $func::<ark_test_curves::bn384_small_two_adicity::Fr>($($arg),*),
            "secp256k1_fq" => $func::<ark_test_curves::secp256k1::Fq>($($arg),*),
            "secp256k1_fr" => $func::<ark_test_curves::secp256k1::Fr>($($arg),*),
            "ed_on_bls12_381_fr" => $func::<ark_test_curves::ed_on_bls12_381::Fr>($($arg),*),
            "fp128_fq" => $func::<ark_test_curves::fp128::Fq>($($arg),*),
            other => $crate::with_zoo_field!(other, $func($($arg),*)),
        }
    };
}

/// Standardised effective cofactor of curves whose clear_cofactor is an optimised map (C12);
/// None = the plain cofactor.
pub fn effective_cofactor(cfg: &str) -> Option<num_bigint::BigUint> {
    use num_bigint::BigUint;
    let z = BigUint::from(0xd201000000010000u64); // |x| of BLS12-381
    match cfg {
        // RFC 9380 section 8.8.1: h_eff = 1 - x = 0xd201000000010001
        "bls12_381_g1" | "c_bls12_381_g1" => Some(&z + 1u32),
        // RFC 9380 section 8.8.2: h_eff = h2 * (3 x^2 - 3), h2 = cofactor of G2
        "bls12_381_g2" | "c_bls12_381_g2" => {
            use ark_ec::CurveConfig;
            let h2 = crate::util::limbs_to_biguint(<ark_test_curves::bls12_381::g2::Config as CurveConfig>::COFACTOR);
            Some(h2 * (BigUint::from(3u32) * (&z * &z - 1u32)))
        }
        _ => None,
    }
}

/// configurations whose clear_cofactor is an optimised (endomorphism-based) map for which no
/// standardised effective cofactor is written down in the check: only "lands in the subgroup" is required
pub fn clear_cofactor_is_optimised(cfg: &str) -> bool {
    matches!(cfg, "c_bls12_377_g1" | "c_bls12_377_g2" | "c_bn254_g2" | "c_bw6_761_g1" | "c_bw6_761_g2" | "c_bw6_767_g1" | "c_bw6_767_g2"
                | "c_cp6_782_g1" | "c_cp6_782_g2")
}

/// configurations whose `mul_projective` is GLV-based (only meaningful on the prime-order subgroup)
pub fn glv_backed_mul(cfg: &str) -> bool {
    matches!(cfg, "bls12_381_g1" | "c_bls12_381_g1" | "c_bls12_377_g1")
}

#[macro_export]
macro_rules! with_big_curve {
    ($id:expr, $func:ident ( $($arg:expr),* )) => {
        match $id {
            "bls12_381_g1" => $func::<$crate::curve::GlvDrv<ark_test_curves::bls12_381::g1::Config>>($($arg),*),
            "bls12_381_g2" => $func::<$crate::curve::SWDrv<ark_test_curves::bls12_381::g2::Config>>($($arg),*),
            "secp256k1" => $func::<$crate::curve::SWDrv<ark_test_curves::secp256k1::Config>>($($arg),*),
            "mnt4_753_g1" => $func::<$crate::curve::SWDrv<ark_test_curves::mnt4_753::g1::Config>>($($arg),*),
            "bn384_g1" => $func::<$crate::curve::SWDrv<ark_test_curves::bn384_small_two_adicity::g1::Config>>($($arg),*),
            "ed_on_bls12_381" => $func::<$crate::curve::TEDrv<ark_test_curves::ed_on_bls12_381::EdwardsConfig>>($($arg),*),
            other => panic!("unknown curve configuration {}", other),
        }
    };
}
