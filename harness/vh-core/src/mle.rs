//! Driver for MleMachine: dense and sparse multilinear extensions, sparse multivariate polynomials.
use crate::poly::PF;
use crate::util::*;
use ark_poly::{
    multivariate::{SparsePolynomial as MvPoly, SparseTerm, Term},
    DenseMVPolynomial, DenseMultilinearExtension as Dense, MultilinearExtension, Polynomial, SparseMultilinearExtension as Sparse,
};
use serde_json::{json, Value};

type Out = Result<(Vec<Value>, Value), String>;

fn table<F: PF>(m: &Value, big: bool) -> (usize, Vec<F>) {
    (m["n"].as_u64().unwrap() as usize, m["t"].as_array().unwrap().iter().map(|c| F::from_abs(c, big)).collect())
}
fn dense<F: PF>(m: &Value, big: bool) -> Dense<F> { let (n, t) = table::<F>(m, big); Dense::from_evaluations_vec(n, t) }
fn sparse<F: PF>(m: &Value, big: bool) -> Sparse<F> {
    let (n, t) = table::<F>(m, big);
    let ev: Vec<(usize, F)> = t.into_iter().enumerate().filter(|(_, v)| !v.is_zero()).collect();
    Sparse::from_evaluations(n, &ev)
}
fn abs_table<F: PF>(n: usize, t: &[F], big: bool) -> Result<Value, String> {
    if t.len() != 1 << n { return Err(format!("table of {} entries for {} variables", t.len(), n)); }
    Ok(json!({"n": n, "t": t.iter().map(|c| c.to_abs(big)).collect::<Result<Vec<_>, _>>()?}))
}
fn dense_abs<F: PF>(d: &Dense<F>, big: bool) -> Result<Value, String> { abs_table(d.num_vars, &d.evaluations, big) }
/// abstraction of the sparse form: through the stored map (not through to_evaluations, which is itself under test)
fn sparse_abs<F: PF>(s: &Sparse<F>, big: bool) -> Result<Value, String> {
    let n = s.num_vars;
    let mut t = vec![F::zero(); 1 << n];
    for (i, v) in s.evaluations.iter() { if *i >= (1 << n) { return Err("index out of range in sparse table".into()); } t[*i] = *v; }
    abs_table(n, &t, big)
}
fn idx(ev: &Value, k: &str) -> usize { ev[k].as_u64().unwrap_or_else(|| panic!("event field {k} missing in {ev}")) as usize - 1 }
fn point<F: PF>(j: &Value, big: bool) -> Vec<F> { j.as_array().unwrap().iter().map(|c| F::from_abs(c, big)).collect() }

fn mv_poly<F: PF>(nv: usize, terms: &Value, big: bool) -> MvPoly<F, SparseTerm> {
    let ts: Vec<(F, SparseTerm)> = terms.as_array().unwrap().iter().map(|t| {
        let c = F::from_abs(&t[0], big);
        let m: Vec<(usize, usize)> = t[1].as_array().unwrap().iter().map(|vp| (vp[0].as_u64().unwrap() as usize, vp[1].as_u64().unwrap() as usize)).collect();
        (c, SparseTerm::new(m)) }).collect();
    MvPoly::from_coefficients_vec(nv, ts)
}

pub fn exec_event<F: PF>(ev: &Value, pre: &[Value], big: bool) -> Vec<(String, Out)> {
    let op = ev["op"].as_str().expect("op");
    let mut out: Vec<(String, Out)> = Vec::new();
    macro_rules! run { ($name:expr, $body:expr) => {{ let r: Out = guarded(|| $body).and_then(|x| x); out.push(($name.to_string(), r)); }}; }
    let with = |d: usize, v: Value| -> Vec<Value> { let mut r = pre.to_vec(); r[d] = v; r };
    match op {
        "add" | "sub" => {
            let (d, s) = (idx(ev, "d"), idx(ev, "s")); let add = op == "add";
            let (a, b) = (dense::<F>(&pre[d], big), dense::<F>(&pre[s], big));
            let (sa, sb) = (sparse::<F>(&pre[d], big), sparse::<F>(&pre[s], big));
            run!("dense_ref", { let r = if add { &a + &b } else { &a - &b }; Ok((with(d, dense_abs(&r, big)?), Value::Null)) });
            run!("dense_val", { let r = if add { a.clone() + b.clone() } else { a.clone() - b.clone() }; Ok((with(d, dense_abs(&r, big)?), Value::Null)) });
            run!("dense_assign", { let mut r = a.clone(); if add { r += &b } else { r -= &b }; Ok((with(d, dense_abs(&r, big)?), Value::Null)) });
            run!("dense_assign_val", { let mut r = a.clone(); if add { r += b.clone() } else { r -= b.clone() }; Ok((with(d, dense_abs(&r, big)?), Value::Null)) });
            run!("sparse_ref", { let r = if add { &sa + &sb } else { &sa - &sb }; Ok((with(d, sparse_abs(&r, big)?), Value::Null)) });
            run!("sparse_val", { let r = if add { sa.clone() + sb.clone() } else { sa.clone() - sb.clone() }; Ok((with(d, sparse_abs(&r, big)?), Value::Null)) });
            run!("sparse_assign", { let mut r = sa.clone(); if add { r += &sb } else { r -= &sb }; Ok((with(d, sparse_abs(&r, big)?), Value::Null)) });
        }
        "add_scaled" => {
            let (d, s) = (idx(ev, "d"), idx(ev, "s")); let f = F::from_abs(&ev["f"], big);
            let (a, b) = (dense::<F>(&pre[d], big), dense::<F>(&pre[s], big));
            let (sa, sb) = (sparse::<F>(&pre[d], big), sparse::<F>(&pre[s], big));
            run!("dense_add_assign_scaled", { let mut r = a.clone(); r += (f, &b); Ok((with(d, dense_abs(&r, big)?), Value::Null)) });
            run!("sparse_add_assign_scaled", { let mut r = sa.clone(); r += (f, &sb); Ok((with(d, sparse_abs(&r, big)?), Value::Null)) });
        }
        "neg" => { let d = idx(ev, "d");
            run!("dense_neg", { let r = -dense::<F>(&pre[d], big); Ok((with(d, dense_abs(&r, big)?), Value::Null)) });
            run!("sparse_neg", { let r = -sparse::<F>(&pre[d], big); Ok((with(d, sparse_abs(&r, big)?), Value::Null)) }); }
        "scale" => { let d = idx(ev, "d"); let f = F::from_abs(&ev["f"], big); let a = dense::<F>(&pre[d], big);
            run!("dense_mul_val", { let r = a.clone() * f; Ok((with(d, dense_abs(&r, big)?), Value::Null)) });
            run!("dense_mul_ref", { let r = &a * &f; Ok((with(d, dense_abs(&r, big)?), Value::Null)) });
            run!("dense_mul_assign", { let mut r = a.clone(); r *= f; Ok((with(d, dense_abs(&r, big)?), Value::Null)) });
            run!("dense_mul_assign_ref", { let mut r = a.clone(); r *= &f; Ok((with(d, dense_abs(&r, big)?), Value::Null)) }); }
        "fix_variables" => { let d = idx(ev, "d"); let x = point::<F>(&ev["x"], big);
            run!("dense_fix_variables", { let r = dense::<F>(&pre[d], big).fix_variables(&x); Ok((with(d, dense_abs(&r, big)?), Value::Null)) });
            run!("sparse_fix_variables", { let r = sparse::<F>(&pre[d], big).fix_variables(&x); Ok((with(d, sparse_abs(&r, big)?), Value::Null)) }); }
        "relabel" => { let d = idx(ev, "d");
            let (a, b, k) = (ev["a"].as_u64().unwrap() as usize, ev["b"].as_u64().unwrap() as usize, ev["k"].as_u64().unwrap() as usize);
            run!("dense_relabel", { let r = dense::<F>(&pre[d], big).relabel(a, b, k); Ok((with(d, dense_abs(&r, big)?), Value::Null)) });
            run!("dense_relabel_in_place", { let mut r = dense::<F>(&pre[d], big); r.relabel_in_place(a, b, k); Ok((with(d, dense_abs(&r, big)?), Value::Null)) });
            run!("sparse_relabel", { let r = sparse::<F>(&pre[d], big).relabel(a, b, k); Ok((with(d, sparse_abs(&r, big)?), Value::Null)) }); }
        "concat" => { let d = idx(ev, "d");
            let ss: Vec<Dense<F>> = ev["ss"].as_array().unwrap().iter().map(|i| dense::<F>(&pre[i.as_u64().unwrap() as usize - 1], big)).collect();
            run!("dense_concat_refs", { let refs: Vec<&Dense<F>> = ss.iter().collect(); let r = Dense::concat(&refs); Ok((with(d, dense_abs(&r, big)?), Value::Null)) });
            run!("dense_concat_vals", { let r = Dense::concat(ss.clone()); Ok((with(d, dense_abs(&r, big)?), Value::Null)) }); }
        "evaluate" => { let d = idx(ev, "d"); let x = point::<F>(&ev["x"], big);
            run!("dense_evaluate", Ok((pre.to_vec(), dense::<F>(&pre[d], big).evaluate(&x).to_abs(big)?)));
            run!("sparse_evaluate", Ok((pre.to_vec(), sparse::<F>(&pre[d], big).evaluate(&x).to_abs(big)?)));
            run!("dense_fix_all", { let r = dense::<F>(&pre[d], big).fix_variables(&x); if r.num_vars != 0 { return Err("fix of all variables leaves variables".into()); } Ok((pre.to_vec(), r.evaluations[0].to_abs(big)?)) }); }
        "to_evaluations" => { let d = idx(ev, "d");
            let tj = |v: Vec<F>| -> Result<Value, String> { Ok(Value::Array(v.iter().map(|c| c.to_abs(big)).collect::<Result<Vec<_>, _>>()?)) };
            run!("dense_to_evaluations", Ok((pre.to_vec(), tj(dense::<F>(&pre[d], big).to_evaluations())?)));
            run!("sparse_to_evaluations", Ok((pre.to_vec(), tj(sparse::<F>(&pre[d], big).to_evaluations())?)));
            run!("sparse_to_dense", Ok((pre.to_vec(), tj(sparse::<F>(&pre[d], big).to_dense_multilinear_extension().evaluations)?)));
            run!("dense_iter", Ok((pre.to_vec(), tj(dense::<F>(&pre[d], big).iter().copied().collect())?))); }
        "index" => { let d = idx(ev, "d"); let i = ev["i"].as_u64().unwrap() as usize;
            run!("dense_index", Ok((pre.to_vec(), dense::<F>(&pre[d], big)[i].to_abs(big)?)));
            run!("sparse_index", Ok((pre.to_vec(), sparse::<F>(&pre[d], big)[i].to_abs(big)?))); }
        "num_vars" => { let d = idx(ev, "d");
            run!("dense_num_vars", Ok((pre.to_vec(), json!(MultilinearExtension::num_vars(&dense::<F>(&pre[d], big))))));
            run!("sparse_num_vars", Ok((pre.to_vec(), json!(MultilinearExtension::num_vars(&sparse::<F>(&pre[d], big)))))); }
        "eq" => { let (d, s) = (idx(ev, "d"), idx(ev, "s"));
            run!("dense_eq", Ok((pre.to_vec(), json!(dense::<F>(&pre[d], big) == dense::<F>(&pre[s], big)))));
            run!("sparse_eq", Ok((pre.to_vec(), json!(sparse::<F>(&pre[d], big) == sparse::<F>(&pre[s], big))))); }
        "mv_evaluate" | "mv_neg" | "mv_add" | "mv_sub" => {
            let nv = ev["nv"].as_u64().unwrap() as usize; let x = point::<F>(&ev["x"], big);
            let p1 = |b: bool| mv_poly::<F>(nv, &ev["t1"], b);
            match op {
                "mv_evaluate" => run!("mv_evaluate", { let p = p1(big); let v = p.evaluate(&x);
                    let _ = p.degree(); if p.terms().iter().any(|(c, _)| c.is_zero()) { return Err("zero coefficient kept".into()); } Ok((pre.to_vec(), v.to_abs(big)?)) }),
                "mv_neg" => run!("mv_neg", Ok((pre.to_vec(), (-p1(big)).evaluate(&x).to_abs(big)?))),
                _ => { let add = op == "mv_add";
                    run!("mv_ref", { let (a, b) = (p1(big), mv_poly::<F>(nv, &ev["t2"], big)); let r = if add { &a + &b } else { &a - &b }; Ok((pre.to_vec(), r.evaluate(&x).to_abs(big)?)) });
                    run!("mv_assign", { let (mut a, b) = (p1(big), mv_poly::<F>(nv, &ev["t2"], big)); if add { a += &b } else { a -= &b }; Ok((pre.to_vec(), a.evaluate(&x).to_abs(big)?)) });
                    if add { run!("mv_val", { let (a, b) = (p1(big), mv_poly::<F>(nv, &ev["t2"], big)); Ok((pre.to_vec(), (a + b).evaluate(&x).to_abs(big)?)) });
                             run!("mv_add_scaled_one", { let (mut a, b) = (p1(big), mv_poly::<F>(nv, &ev["t2"], big)); a += (F::one(), &b); Ok((pre.to_vec(), a.evaluate(&x).to_abs(big)?)) }); } }
            }
        }
        _ => panic!("unknown mle event {op}"),
    }
    out
}

pub fn replay<F: PF>(trans: impl Iterator<Item = Value>, big: bool) -> Report {
    let mut rep = Report::default();
    for t in trans {
        rep.transitions += 1;
        let ev = &t["ev"];
        rep.op(ev["op"].as_str().unwrap());
        let pre = t["pre"].as_array().expect("pre").clone();
        let post = t["post"].as_array().expect("post").clone();
        let want_ret = ev.get("ret").cloned().unwrap_or(Value::Null);
        if rep.transitions % 997 == 1 { rep.sample(&t); }
        intent(&t);
        let mut ok = true;
        for (name, res) in exec_event::<F>(ev, &pre, big) {
            rep.evaluations += 1;
            match res {
                Ok((abs, ret)) => { let ret_ok = ret.is_null() || want_ret.is_null() || ret == want_ret;
                    if abs != post || !ret_ok { ok = false; rep.mismatch(json!({"transition": t, "variant": name, "got_post": abs, "got_ret": ret})); } }
                Err(e) => { ok = false; rep.mismatch(json!({"transition": t, "variant": name, "error": e})); }
            }
        }
        if ok && (t["pre"] != t["post"] || !(want_ret.is_null() || want_ret == json!(0) || want_ret == json!(false))) { rep.nontrivial.insert(format!("{}|{}", t["pre"], ev)); }
    }
    rep
}
