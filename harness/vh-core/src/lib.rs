//! vh-core library: drivers binding the TLA+ specification to the arkworks code (used by the
//! vh-core and vh-curves binaries).
pub mod bigint;
pub mod cfgs;
pub mod literal;
pub mod gen_lit;
pub mod container;
pub mod mle;
pub mod msm;
pub mod ser;
pub mod poly;
pub mod curve;
pub mod elem;
pub mod field;
pub mod gen_toy;
pub mod gen_zoo;
pub mod util;
pub mod pairing;
pub mod h2c;
pub mod config;
pub mod gen_config;
