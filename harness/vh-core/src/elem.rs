//! Abstraction functions between the specification's abstract values and the
//! implementation's concrete representation.  Construction of concrete values does NOT go
//! through the operations under test: Montgomery limbs are computed with num-bigint.
use crate::util::*;
use ark_ff::{
    BigInt, CubicExtConfig, CubicExtField, Field, Fp, MontBackend, MontConfig, PrimeField,
    QuadExtConfig, QuadExtField,
};
use num_bigint::BigUint;
use num_traits::One;
use serde_json::{json, Value};
use std::marker::PhantomData;

pub trait Elem: Field {
    /// abstract value (spec) -> concrete element, built from raw limbs
    fn from_abs(j: &Value, big: bool) -> Self;
    /// concrete element -> abstract value; Err when a representation invariant is broken
    fn to_abs(&self, big: bool) -> Result<Value, String>;
    /// raw representation (Montgomery limbs as LE byte arrays, nested like the tower)
    fn raw_json(&self) -> Value;
    /// concrete element directly from the raw representation logged by raw_json
    fn modulus() -> BigUint;
    /// number of 64-bit limbs of the base prime field
    fn nlimbs() -> usize;
    /// shape of the tower: list of extension degrees from the bottom
    fn shape() -> Vec<usize>;
    /// does this field have a configured square-root algorithm (C11 only speaks about those)?
    fn has_sqrt() -> bool;
    /// the tower as the specification describes it: [{deg, nr}] from the bottom, nr abstract
    fn levels(big: bool) -> Vec<Value>;
    /// element with the given coordinates over the prime field (abstract numbers), built from raw limbs
    fn from_coords(c: &[BigUint]) -> Self {
        fn nest(c: &[BigUint], shape: &[usize]) -> Value {
            match shape.split_last() {
                None => num_to_json(&c[0], true),
                Some((d, rest)) => {
                    let w = c.len() / d;
                    Value::Array((0..*d).map(|i| nest(&c[i * w..(i + 1) * w], rest)).collect())
                }
            }
        }
        Self::from_abs(&nest(c, &Self::shape()), true)
    }

    // prime-field-only operations (None / unsupported for extensions)
    fn p_from_bytes_mod(_bytes: &[u8], _be: bool) -> Option<Self> {
        None
    }
    fn p_from_bigint(_v: &BigUint) -> Option<Option<Self>> {
        None
    }
    fn p_into_bigint(&self) -> Option<BigUint> {
        None
    }
}

pub fn mont_r<const N: usize>(p: &BigUint) -> BigUint {
    (BigUint::one() << (64 * N)) % p
}

impl<T: MontConfig<N>, const N: usize> Elem for Fp<MontBackend<T, N>, N> {
    fn from_abs(j: &Value, big: bool) -> Self {
        let p: BigUint = T::MODULUS.into();
        let v = num_from_json(j, big);
        assert!(v < p, "abstract value not reduced");
        let raw = (v << (64 * N)) % &p;
        let limbs = biguint_to_limbs(&raw, N);
        let mut a = [0u64; N];
        a.copy_from_slice(&limbs);
        Fp(BigInt(a), PhantomData)
    }
    fn to_abs(&self, big: bool) -> Result<Value, String> {
        let p: BigUint = T::MODULUS.into();
        let raw = limbs_to_biguint(&self.0 .0);
        if raw >= p {
            return Err(format!("non-canonical Montgomery representation: raw {raw} >= p {p}"));
        }
        let r = mont_r::<N>(&p);
        let rinv = r.modpow(&(&p - 2u32), &p);
        Ok(num_to_json(&((raw * rinv) % &p), big))
    }
    fn raw_json(&self) -> Value {
        num_to_json(&limbs_to_biguint(&self.0 .0), true)
    }
    fn modulus() -> BigUint {
        T::MODULUS.into()
    }
    fn nlimbs() -> usize {
        N
    }
    fn shape() -> Vec<usize> {
        vec![]
    }
    fn levels(_big: bool) -> Vec<Value> {
        vec![]
    }
    fn has_sqrt() -> bool {
        <Self as Field>::SQRT_PRECOMP.is_some()
    }
    fn p_from_bytes_mod(bytes: &[u8], be: bool) -> Option<Self> {
        Some(if be { Self::from_be_bytes_mod_order(bytes) } else { Self::from_le_bytes_mod_order(bytes) })
    }
    fn p_from_bigint(v: &BigUint) -> Option<Option<Self>> {
        let limbs = biguint_to_limbs(v, N);
        let mut a = [0u64; N];
        a.copy_from_slice(&limbs);
        Some(<Self as PrimeField>::from_bigint(BigInt(a)))
    }
    fn p_into_bigint(&self) -> Option<BigUint> {
        Some(limbs_to_biguint(&self.into_bigint().0))
    }
}

impl<P: QuadExtConfig> Elem for QuadExtField<P>
where
    P::BaseField: Elem,
{
    fn from_abs(j: &Value, big: bool) -> Self {
        let a = j.as_array().expect("quad ext element");
        assert_eq!(a.len(), 2);
        Self::new(P::BaseField::from_abs(&a[0], big), P::BaseField::from_abs(&a[1], big))
    }
    fn to_abs(&self, big: bool) -> Result<Value, String> {
        Ok(json!([self.c0.to_abs(big)?, self.c1.to_abs(big)?]))
    }
    fn raw_json(&self) -> Value {
        json!([self.c0.raw_json(), self.c1.raw_json()])
    }
    fn modulus() -> BigUint {
        P::BaseField::modulus()
    }
    fn nlimbs() -> usize {
        P::BaseField::nlimbs()
    }
    fn shape() -> Vec<usize> {
        let mut s = P::BaseField::shape();
        s.push(2);
        s
    }
    fn levels(big: bool) -> Vec<Value> {
        let mut l = P::BaseField::levels(big);
        l.push(json!({"deg": 2, "nr": P::NONRESIDUE.to_abs(big).expect("canonical nonresidue")}));
        l
    }
    fn has_sqrt() -> bool {
        // the quadratic template takes roots through the base field
        P::BaseField::has_sqrt()
    }
}

impl<P: CubicExtConfig> Elem for CubicExtField<P>
where
    P::BaseField: Elem,
{
    fn from_abs(j: &Value, big: bool) -> Self {
        let a = j.as_array().expect("cubic ext element");
        assert_eq!(a.len(), 3);
        Self::new(
            P::BaseField::from_abs(&a[0], big),
            P::BaseField::from_abs(&a[1], big),
            P::BaseField::from_abs(&a[2], big),
        )
    }
    fn to_abs(&self, big: bool) -> Result<Value, String> {
        Ok(json!([self.c0.to_abs(big)?, self.c1.to_abs(big)?, self.c2.to_abs(big)?]))
    }
    fn raw_json(&self) -> Value {
        json!([self.c0.raw_json(), self.c1.raw_json(), self.c2.raw_json()])
    }
    fn modulus() -> BigUint {
        P::BaseField::modulus()
    }
    fn nlimbs() -> usize {
        P::BaseField::nlimbs()
    }
    fn shape() -> Vec<usize> {
        let mut s = P::BaseField::shape();
        s.push(3);
        s
    }
    fn levels(big: bool) -> Vec<Value> {
        let mut l = P::BaseField::levels(big);
        l.push(json!({"deg": 3, "nr": P::NONRESIDUE.to_abs(big).expect("canonical nonresidue")}));
        l
    }
    fn has_sqrt() -> bool {
        <Self as Field>::SQRT_PRECOMP.is_some()
    }
}
