//! Abstraction functions between the specification's abstract values and the
//! implementation's concrete representation.  Construction of concrete values does NOT go
//! through the operations under test: Montgomery limbs are computed with num-bigint.
use crate::util::*;
use ark_ff::{
    BigInt, CubicExtConfig, CubicExtField, Field, Fp, MontBackend, MontConfig, PrimeField,
    QuadExtConfig, QuadExtField,
};
use num_bigint::BigUint;
use num_traits::One;
use serde_json::{json, Value};
use std::marker::PhantomData;

pub trait Elem: Field {
    /// abstract value (spec) -> concrete element, built from raw limbs
    fn from_abs(j: &Value, big: bool) -> Self;
    /// concrete element -> abstract value; Err when a representation invariant is broken
    fn to_abs(&self, big: bool) -> Result<Value, String>;
    /// raw representation (Montgomery limbs as LE byte arrays, nested like the tower)
    fn raw_json(&self) -> Value;
    /// concrete element directly from the raw representation logged by raw_json
    fn modulus() -> BigUint;
    /// number of 64-bit limbs of the base prime field
    fn nlimbs() -> usize;
    /// shape of the tower: list of extension degrees from the bottom
    fn shape() -> Vec<usize>;
    /// does this field have a configured square-root algorithm (C11 only speaks about those)?
    fn has_sqrt() -> bool;
    /// the tower as the specification describes it: [{deg, nr}] from the bottom, nr abstract
    fn levels(big: bool) -> Vec<Value>;
    /// element with the given coordinates over the prime field (abstract numbers), built from raw limbs
    fn from_coords(c: &[BigUint]) -> Self {
        fn nest(c: &[BigUint], shape: &[usize]) -> Value {
            match shape.split_last() {
                None => num_to_json(&c[0], true),
                Some((d, rest)) => {
                    let w = c.len() / d;
                    Value::Array((0..*d).map(|i| nest(&c[i * w..(i + 1) * w], rest)).collect())
                }
            }
        }
        Self::from_abs(&nest(c, &Self::shape()), true)
    }

    /// type-specific operations beyond the `Field` trait (norm, conjugation, multiplication by subfield elements, sparse
    /// multiplications, cyclotomic square / inverse / exponentiation): (variant name, abstract result) for every way the
    /// type offers to compute `op`; empty when it offers none
    fn extra(&self, _op: &str, _args: &Value, _big: bool) -> Vec<(String, Result<Value, String>)> {
        Vec::new()
    }

    // prime-field-only operations (None / unsupported for extensions)
    fn p_from_bytes_mod(_bytes: &[u8], _be: bool) -> Option<Self> {
        None
    }
    fn p_from_bigint(_v: &BigUint) -> Option<Option<Self>> {
        None
    }
    fn p_into_bigint(&self) -> Option<BigUint> {
        None
    }
    /// FromStr (two entry points: the trait method and str::parse); None for extension fields
    fn p_from_str(_s: &str, _parse: bool) -> Option<Result<Self, ()>> {
        None
    }
}

/// R^-1 mod p for R = 2^(64N), computed with num-bigint once per (p, N) (the abstraction function is called for every logged value)
pub fn mont_rinv<const N: usize>(p: &BigUint) -> BigUint {
    use std::sync::{Mutex, OnceLock};
    static CACHE: OnceLock<Mutex<std::collections::HashMap<(Vec<u8>, usize), BigUint>>> = OnceLock::new();
    let key = (p.to_bytes_le(), N);
    let mut m = CACHE.get_or_init(|| Mutex::new(Default::default())).lock().unwrap();
    m.entry(key).or_insert_with(|| mont_r::<N>(p).modpow(&(p - 2u32), p)).clone()
}
pub fn mont_r<const N: usize>(p: &BigUint) -> BigUint {
    (BigUint::one() << (64 * N)) % p
}

impl<T: MontConfig<N>, const N: usize> Elem for Fp<MontBackend<T, N>, N> {
    fn from_abs(j: &Value, big: bool) -> Self {
        let p: BigUint = T::MODULUS.into();
        let v = num_from_json(j, big);
        assert!(v < p, "abstract value not reduced");
        let raw = (v << (64 * N)) % &p;
        let limbs = biguint_to_limbs(&raw, N);
        let mut a = [0u64; N];
        a.copy_from_slice(&limbs);
        Fp(BigInt(a), PhantomData)
    }
    fn to_abs(&self, big: bool) -> Result<Value, String> {
        let p: BigUint = T::MODULUS.into();
        let raw = limbs_to_biguint(&self.0 .0);
        if raw >= p {
            return Err(format!("non-canonical Montgomery representation: raw {raw} >= p {p}"));
        }
        let rinv = mont_rinv::<N>(&p);
        Ok(num_to_json(&((raw * rinv) % &p), big))
    }
    fn raw_json(&self) -> Value {
        num_to_json(&limbs_to_biguint(&self.0 .0), true)
    }
    fn modulus() -> BigUint {
        T::MODULUS.into()
    }
    fn nlimbs() -> usize {
        N
    }
    fn shape() -> Vec<usize> {
        vec![]
    }
    fn levels(_big: bool) -> Vec<Value> {
        vec![]
    }
    fn has_sqrt() -> bool {
        <Self as Field>::SQRT_PRECOMP.is_some()
    }
    fn p_from_bytes_mod(bytes: &[u8], be: bool) -> Option<Self> {
        Some(if be { Self::from_be_bytes_mod_order(bytes) } else { Self::from_le_bytes_mod_order(bytes) })
    }
    fn p_from_bigint(v: &BigUint) -> Option<Option<Self>> {
        let limbs = biguint_to_limbs(v, N);
        let mut a = [0u64; N];
        a.copy_from_slice(&limbs);
        Some(<Self as PrimeField>::from_bigint(BigInt(a)))
    }
    fn p_from_str(s: &str, parse: bool) -> Option<Result<Self, ()>> {
        Some(if parse { s.parse::<Self>() } else { <Self as std::str::FromStr>::from_str(s) })
    }
    fn p_into_bigint(&self) -> Option<BigUint> {
        Some(limbs_to_biguint(&self.into_bigint().0))
    }
}

impl<P: QuadExtConfig + QExtra> Elem for QuadExtField<P>
where
    P::BaseField: Elem,
{
    fn from_abs(j: &Value, big: bool) -> Self {
        let a = j.as_array().expect("quad ext element");
        assert_eq!(a.len(), 2);
        Self::new(P::BaseField::from_abs(&a[0], big), P::BaseField::from_abs(&a[1], big))
    }
    fn to_abs(&self, big: bool) -> Result<Value, String> {
        Ok(json!([self.c0.to_abs(big)?, self.c1.to_abs(big)?]))
    }
    fn raw_json(&self) -> Value {
        json!([self.c0.raw_json(), self.c1.raw_json()])
    }
    fn modulus() -> BigUint {
        P::BaseField::modulus()
    }
    fn nlimbs() -> usize {
        P::BaseField::nlimbs()
    }
    fn shape() -> Vec<usize> {
        let mut s = P::BaseField::shape();
        s.push(2);
        s
    }
    fn levels(big: bool) -> Vec<Value> {
        let mut l = P::BaseField::levels(big);
        l.push(json!({"deg": 2, "nr": P::NONRESIDUE.to_abs(big).expect("canonical nonresidue")}));
        l
    }
    fn extra(&self, op: &str, args: &Value, big: bool) -> Vec<(String, Result<Value, String>)> {
        P::extra(self, op, args, big)
    }
    fn has_sqrt() -> bool {
        // the quadratic template takes roots through the base field
        P::BaseField::has_sqrt()
    }
}

impl<P: CubicExtConfig + CExtra> Elem for CubicExtField<P>
where
    P::BaseField: Elem,
{
    fn from_abs(j: &Value, big: bool) -> Self {
        let a = j.as_array().expect("cubic ext element");
        assert_eq!(a.len(), 3);
        Self::new(
            P::BaseField::from_abs(&a[0], big),
            P::BaseField::from_abs(&a[1], big),
            P::BaseField::from_abs(&a[2], big),
        )
    }
    fn to_abs(&self, big: bool) -> Result<Value, String> {
        Ok(json!([self.c0.to_abs(big)?, self.c1.to_abs(big)?, self.c2.to_abs(big)?]))
    }
    fn raw_json(&self) -> Value {
        json!([self.c0.raw_json(), self.c1.raw_json(), self.c2.raw_json()])
    }
    fn modulus() -> BigUint {
        P::BaseField::modulus()
    }
    fn nlimbs() -> usize {
        P::BaseField::nlimbs()
    }
    fn shape() -> Vec<usize> {
        let mut s = P::BaseField::shape();
        s.push(3);
        s
    }
    fn levels(big: bool) -> Vec<Value> {
        let mut l = P::BaseField::levels(big);
        l.push(json!({"deg": 3, "nr": P::NONRESIDUE.to_abs(big).expect("canonical nonresidue")}));
        l
    }
    fn extra(&self, op: &str, args: &Value, big: bool) -> Vec<(String, Result<Value, String>)> {
        P::extra(self, op, args, big)
    }
    fn has_sqrt() -> bool {
        <Self as Field>::SQRT_PRECOMP.is_some()
    }
}

// ---------------------------------------------------------------------------------------
// Type-specific tower operations.  The inherent methods (mul_by_014, mul_by_fp2, cyclotomic_square, ...) live on the
// concrete tower types, i.e. on QuadExtField / CubicExtField instantiated with the wrapper configurations of ark-ff,
// so the dispatch is a trait on those wrappers.
use ark_ff::fields::models::{fp12_2over3over2, fp2, fp3, fp4, fp6_2over3, fp6_3over2};
use ark_ff::CyclotomicMultSubgroup;

pub type Extra = Vec<(String, Result<Value, String>)>;
pub trait QExtra: QuadExtConfig { fn extra(x: &QuadExtField<Self>, op: &str, args: &Value, big: bool) -> Extra; }
pub trait CExtra: CubicExtConfig { fn extra(x: &CubicExtField<Self>, op: &str, args: &Value, big: bool) -> Extra; }

fn run<T>(out: &mut Extra, name: &str, f: impl FnOnce() -> Result<T, String>, abs: impl Fn(&T) -> Result<Value, String>) {
    let r = guarded(f).and_then(|x| x).and_then(|v| abs(&v));
    out.push((name.to_string(), r));
}
fn exp_limbs(args: &Value, big: bool) -> Vec<u64> { let mut l = num_from_json(&args["e"], big).to_u64_digits(); if l.is_empty() { l.push(0); } l }

/// operations every quadratic template instance has: norm, conjugate, multiplication by an element of the level below
fn quad_common<P: QuadExtConfig>(x: &QuadExtField<P>, op: &str, args: &Value, big: bool, top: usize, out: &mut Extra) where P::BaseField: Elem {
    match op {
        "norm" => run(out, "norm", || Ok(x.norm()), |v| v.to_abs(big)),
        "conj" => { run(out, "conjugate_in_place", || { let mut y = *x; y.conjugate_in_place(); Ok(y) }, |v: &QuadExtField<P>| Ok(json!([v.c0.to_abs(big)?, v.c1.to_abs(big)?]))); }
        "mul_base" if args["j"].as_u64() == Some(top as u64 - 1) => {
            let s = P::BaseField::from_abs(&args["s"], big);
            run(out, "mul_assign_by_basefield", || { let mut y = *x; y.mul_assign_by_basefield(&s); Ok(y) }, |v: &QuadExtField<P>| Ok(json!([v.c0.to_abs(big)?, v.c1.to_abs(big)?])));
        }
        _ => {}
    }
}
fn cubic_common<P: CubicExtConfig>(x: &CubicExtField<P>, op: &str, args: &Value, big: bool, top: usize, out: &mut Extra) where P::BaseField: Elem {
    let abs = |v: &CubicExtField<P>| -> Result<Value, String> { Ok(json!([v.c0.to_abs(big)?, v.c1.to_abs(big)?, v.c2.to_abs(big)?])) };
    match op {
        "norm" => run(out, "norm", || Ok(x.norm()), |v| v.to_abs(big)),
        "mul_base" if args["j"].as_u64() == Some(top as u64 - 1) => {
            let s = P::BaseField::from_abs(&args["s"], big);
            run(out, "mul_assign_by_base_field", || { let mut y = *x; y.mul_assign_by_base_field(&s); Ok(y) }, abs);
        }
        _ => {}
    }
}
macro_rules! cyc_ops { ($x:expr, $op:expr, $args:expr, $big:expr, $out:expr, $abs:expr) => {{
    match $op {
        "cyc_sq" => { run($out, "cyclotomic_square", || Ok($x.cyclotomic_square()), $abs);
                      run($out, "cyclotomic_square_in_place", || { let mut y = *$x; y.cyclotomic_square_in_place(); Ok(y) }, $abs); }
        "cyc_inv" => { run($out, "cyclotomic_inverse", || $x.cyclotomic_inverse().ok_or("None".to_string()), $abs);
                       run($out, "cyclotomic_inverse_in_place", || { let mut y = *$x; y.cyclotomic_inverse_in_place().ok_or("None".to_string())?; Ok(y) }, $abs); }
        "cyc_exp" => { let l = exp_limbs($args, $big); let l2 = l.clone();
                       run($out, "cyclotomic_exp", || Ok($x.cyclotomic_exp(&l)), $abs);
                       run($out, "cyclotomic_exp_in_place", || { let mut y = *$x; y.cyclotomic_exp_in_place(&l2); Ok(y) }, $abs); }
        _ => {}
    }
}}; }
fn slots(args: &Value) -> Vec<u64> { args["slots"].as_array().map(|a| a.iter().map(|x| x.as_u64().unwrap()).collect()).unwrap_or_default() }

impl<P: fp2::Fp2Config> QExtra for fp2::Fp2ConfigWrapper<P> where P::Fp: Elem {
    fn extra(x: &fp2::Fp2<P>, op: &str, args: &Value, big: bool) -> Extra {
        let mut out = Extra::new();
        let abs = |v: &fp2::Fp2<P>| v.to_abs(big);
        quad_common(x, op, args, big, 1, &mut out);
        if op == "mul_base" && args["j"].as_u64() == Some(0) {
            let s = P::Fp::from_abs(&args["s"], big);
            run(&mut out, "mul_assign_by_fp", || { let mut y = *x; y.mul_assign_by_fp(&s); Ok(y) }, abs);
        }
        cyc_ops!(x, op, args, big, &mut out, abs);
        out
    }
}
impl<P: fp3::Fp3Config> CExtra for fp3::Fp3ConfigWrapper<P> where P::Fp: Elem {
    fn extra(x: &fp3::Fp3<P>, op: &str, args: &Value, big: bool) -> Extra {
        let mut out = Extra::new();
        let abs = |v: &fp3::Fp3<P>| v.to_abs(big);
        cubic_common(x, op, args, big, 1, &mut out);
        if op == "mul_base" && args["j"].as_u64() == Some(0) {
            let s = P::Fp::from_abs(&args["s"], big);
            run(&mut out, "mul_assign_by_fp", || { let mut y = *x; y.mul_assign_by_fp(&s); Ok(y) }, abs);
        }
        cyc_ops!(x, op, args, big, &mut out, abs);
        out
    }
}
impl<P: fp4::Fp4Config> QExtra for fp4::Fp4ConfigWrapper<P> where <P::Fp2Config as fp2::Fp2Config>::Fp: Elem {
    fn extra(x: &fp4::Fp4<P>, op: &str, args: &Value, big: bool) -> Extra {
        let mut out = Extra::new();
        let abs = |v: &fp4::Fp4<P>| v.to_abs(big);
        quad_common(x, op, args, big, 2, &mut out);
        if op == "mul_base" && args["j"].as_u64() == Some(0) {
            let s = <P::Fp2Config as fp2::Fp2Config>::Fp::from_abs(&args["s"], big);
            run(&mut out, "mul_by_fp", || { let mut y = *x; y.mul_by_fp(&s); Ok(y) }, abs);
        }
        if op == "mul_base" && args["j"].as_u64() == Some(1) {
            let s = fp2::Fp2::<P::Fp2Config>::from_abs(&args["s"], big);
            run(&mut out, "mul_by_fp2", || { let mut y = *x; y.mul_by_fp2(&s); Ok(y) }, abs);
        }
        cyc_ops!(x, op, args, big, &mut out, abs);
        out
    }
}
impl<P: fp6_3over2::Fp6Config> CExtra for fp6_3over2::Fp6ConfigWrapper<P> where <P::Fp2Config as fp2::Fp2Config>::Fp: Elem {
    fn extra(x: &fp6_3over2::Fp6<P>, op: &str, args: &Value, big: bool) -> Extra {
        type F2<P> = fp2::Fp2<<P as fp6_3over2::Fp6Config>::Fp2Config>;
        let mut out = Extra::new();
        let abs = |v: &fp6_3over2::Fp6<P>| v.to_abs(big);
        cubic_common(x, op, args, big, 2, &mut out);
        if op == "mul_base" && args["j"].as_u64() == Some(0) {
            let s = <P::Fp2Config as fp2::Fp2Config>::Fp::from_abs(&args["s"], big);
            run(&mut out, "mul_by_fp", || { let mut y = *x; y.mul_by_fp(&s); Ok(y) }, abs);
        }
        if op == "mul_base" && args["j"].as_u64() == Some(1) {
            let s = F2::<P>::from_abs(&args["s"], big);
            run(&mut out, "mul_by_fp2", || { let mut y = *x; y.mul_by_fp2(&s); Ok(y) }, abs);
            run(&mut out, "mul_assign_by_fp2", || { let mut y = *x; y.mul_assign_by_fp2(s); Ok(y) }, abs);
        }
        if op == "sparse" {
            let cs: Vec<F2<P>> = args["cs"].as_array().unwrap().iter().map(|c| F2::<P>::from_abs(c, big)).collect();
            match slots(args).as_slice() {
                [0, 1] => run(&mut out, "mul_by_01", || { let mut y = *x; y.mul_by_01(&cs[0], &cs[1]); Ok(y) }, abs),
                [1] => run(&mut out, "mul_by_1", || { let mut y = *x; y.mul_by_1(&cs[0]); Ok(y) }, abs),
                _ => {}
            }
        }
        cyc_ops!(x, op, args, big, &mut out, abs);
        out
    }
}
impl<P: fp6_2over3::Fp6Config> QExtra for fp6_2over3::Fp6ConfigWrapper<P> where <P::Fp3Config as fp3::Fp3Config>::Fp: Elem {
    fn extra(x: &fp6_2over3::Fp6<P>, op: &str, args: &Value, big: bool) -> Extra {
        type F0<P> = <<P as fp6_2over3::Fp6Config>::Fp3Config as fp3::Fp3Config>::Fp;
        let mut out = Extra::new();
        let abs = |v: &fp6_2over3::Fp6<P>| v.to_abs(big);
        quad_common(x, op, args, big, 2, &mut out);
        if op == "sparse" {
            let cs: Vec<F0<P>> = args["cs"].as_array().unwrap().iter().map(|c| F0::<P>::from_abs(c, big)).collect();
            match slots(args).as_slice() {
                [0, 3, 4] => run(&mut out, "mul_by_034", || { let mut y = *x; y.mul_by_034(&cs[0], &cs[1], &cs[2]); Ok(y) }, abs),
                [0, 1, 4] => run(&mut out, "mul_by_014", || { let mut y = *x; y.mul_by_014(&cs[0], &cs[1], &cs[2]); Ok(y) }, abs),
                _ => {}
            }
        }
        cyc_ops!(x, op, args, big, &mut out, abs);
        out
    }
}
impl<P: fp12_2over3over2::Fp12Config> QExtra for fp12_2over3over2::Fp12ConfigWrapper<P>
where <<P::Fp6Config as fp6_3over2::Fp6Config>::Fp2Config as fp2::Fp2Config>::Fp: Elem {
    fn extra(x: &fp12_2over3over2::Fp12<P>, op: &str, args: &Value, big: bool) -> Extra {
        type F2<P> = fp2::Fp2<<<P as fp12_2over3over2::Fp12Config>::Fp6Config as fp6_3over2::Fp6Config>::Fp2Config>;
        type F0<P> = <<<P as fp12_2over3over2::Fp12Config>::Fp6Config as fp6_3over2::Fp6Config>::Fp2Config as fp2::Fp2Config>::Fp;
        let mut out = Extra::new();
        let abs = |v: &fp12_2over3over2::Fp12<P>| v.to_abs(big);
        quad_common(x, op, args, big, 3, &mut out);
        if op == "mul_base" && args["j"].as_u64() == Some(0) {
            let s = F0::<P>::from_abs(&args["s"], big);
            run(&mut out, "mul_by_fp", || { let mut y = *x; y.mul_by_fp(&s); Ok(y) }, abs);
        }
        if op == "sparse" {
            let cs: Vec<F2<P>> = args["cs"].as_array().unwrap().iter().map(|c| F2::<P>::from_abs(c, big)).collect();
            match slots(args).as_slice() {
                [0, 3, 4] => run(&mut out, "mul_by_034", || { let mut y = *x; y.mul_by_034(&cs[0], &cs[1], &cs[2]); Ok(y) }, abs),
                [0, 1, 4] => run(&mut out, "mul_by_014", || { let mut y = *x; y.mul_by_014(&cs[0], &cs[1], &cs[2]); Ok(y) }, abs),
                _ => {}
            }
        }
        cyc_ops!(x, op, args, big, &mut out, abs);
        out
    }
}
