//! Driver for BigIntMachine (ark_ff::BigInt<N>, trait BigInteger).
use crate::util::*;
use ark_ff::{biginteger::arithmetic::{find_naf, find_relaxed_naf}, BigInt, BigInteger};
use num_bigint::BigUint;
use num_traits::{One, ToPrimitive, Zero};
use serde_json::{json, Value};
use std::str::FromStr;

fn to_big<const N: usize>(v: &Value) -> BigInt<N> {
    let n = num_from_json(v, true);
    let l = biguint_to_limbs(&n, N);
    let mut a = [0u64; N];
    a.copy_from_slice(&l);
    BigInt(a)
}
fn from_big<const N: usize>(x: &BigInt<N>) -> Value {
    num_to_json(&limbs_to_biguint(&x.0), true)
}
fn idx(ev: &Value, k: &str) -> usize {
    ev[k].as_u64().unwrap_or_else(|| panic!("event field {k} missing in {ev}")) as usize - 1
}
fn bits_json(b: &[bool]) -> Value {
    Value::Array(b.iter().map(|x| json!(*x as u8)).collect())
}
fn ord(c: std::cmp::Ordering) -> i32 {
    match c { std::cmp::Ordering::Less => -1, std::cmp::Ordering::Equal => 0, std::cmp::Ordering::Greater => 1 }
}

type Variant<'a, const N: usize> = (&'static str, Box<dyn Fn(&mut Vec<BigInt<N>>) -> Value + 'a>);

pub fn variants<'a, const N: usize>(ev: &'a Value) -> Vec<Variant<'a, N>> {
    let op = ev["op"].as_str().expect("op");
    let mut v: Vec<Variant<'a, N>> = Vec::new();
    macro_rules! var { ($name:literal, |$r:ident| $body:expr) => { v.push(($name, Box::new(move |$r: &mut Vec<BigInt<N>>| $body))) }; }
    match op {
        "load" => {}
        "add_with_carry" => { let (d, s) = (idx(ev, "d"), idx(ev, "s")); var!("add_with_carry", |r| { let b = r[s]; json!(r[d].add_with_carry(&b)) }); }
        "sub_with_borrow" => { let (d, s) = (idx(ev, "d"), idx(ev, "s")); var!("sub_with_borrow", |r| { let b = r[s]; json!(r[d].sub_with_borrow(&b)) }); }
        "mul" => { let (d, s) = (idx(ev, "d"), idx(ev, "s")); var!("mul", |r| { let (lo, hi) = r[d].mul(&r[s]); r[d] = lo; from_big(&hi) }); }
        "mul_low" => { let (d, s) = (idx(ev, "d"), idx(ev, "s")); var!("mul_low", |r| { r[d] = r[d].mul_low(&r[s]); Value::Null }); }
        "mul_high" => { let (d, s) = (idx(ev, "d"), idx(ev, "s")); var!("mul_high", |r| { r[d] = r[d].mul_high(&r[s]); Value::Null }); }
        "and" => { let (d, s) = (idx(ev, "d"), idx(ev, "s"));
            var!("bitand", |r| { r[d] = r[d] & r[s]; Value::Null }); var!("bitand_assign", |r| { let b = r[s]; r[d] &= b; Value::Null }); var!("bitand_ref", |r| { let b = r[s]; r[d] = r[d] & &b; Value::Null }); }
        "or" => { let (d, s) = (idx(ev, "d"), idx(ev, "s"));
            var!("bitor", |r| { r[d] = r[d] | r[s]; Value::Null }); var!("bitor_assign", |r| { let b = r[s]; r[d] |= b; Value::Null }); }
        "xor" => { let (d, s) = (idx(ev, "d"), idx(ev, "s"));
            var!("bitxor", |r| { r[d] = r[d] ^ r[s]; Value::Null }); var!("bitxor_assign", |r| { let b = r[s]; r[d] ^= &b; Value::Null }); }
        "mul2" => { let d = idx(ev, "d"); var!("mul2", |r| json!(r[d].mul2())); }
        "div2" => { let d = idx(ev, "d"); var!("div2", |r| { r[d].div2(); Value::Null });
                    var!("divide_by_2_round_down", |r| { r[d] = r[d].divide_by_2_round_down(); Value::Null });
                    var!("const_shr", |r| { r[d] = r[d].const_shr(); Value::Null }); }
        "not" => { let d = idx(ev, "d"); var!("not", |r| { r[d] = !r[d]; Value::Null }); }
        "muln" | "shl" | "divn" | "shr" => {
            let d = idx(ev, "d");
            let k = ev["k"].as_u64().unwrap() as u32;
            match op {
                "muln" => { var!("muln", |r| { #[allow(deprecated)] r[d].muln(k); Value::Null }); }
                "divn" => { var!("divn", |r| { #[allow(deprecated)] r[d].divn(k); Value::Null }); }
                "shl" => { var!("shl", |r| { r[d] = r[d] << k; Value::Null }); var!("shl_assign", |r| { r[d] <<= k; Value::Null }); }
                _ => { var!("shr", |r| { r[d] = r[d] >> k; Value::Null }); var!("shr_assign", |r| { r[d] >>= k; Value::Null }); }
            }
        }
        "cmp" => { let (d, s) = (idx(ev, "d"), idx(ev, "s"));
            var!("cmp", |r| json!(ord(r[d].cmp(&r[s])))); var!("partial_cmp", |r| json!(ord(r[d].partial_cmp(&r[s]).unwrap())));
            var!("lt_gt", |r| json!(if r[d] < r[s] { -1 } else if r[d] > r[s] { 1 } else { 0 })); }
        "eq" => { let (d, s) = (idx(ev, "d"), idx(ev, "s")); var!("eq", |r| json!(r[d] == r[s]));
            var!("hash_eq", |r| { use std::hash::{Hash, Hasher};
                let h = |x: &BigInt<N>| { let mut s = std::collections::hash_map::DefaultHasher::new(); x.hash(&mut s); s.finish() };
                if r[d] == r[s] && h(&r[d]) != h(&r[s]) { json!("hash differs") } else { json!(r[d] == r[s]) } }); }
        "is_zero" => { let d = idx(ev, "d"); var!("is_zero", |r| json!(r[d].is_zero())); var!("eq_zero", |r| json!(r[d] == BigInt::<N>::zero())); }
        "is_odd" => { let d = idx(ev, "d"); var!("is_odd", |r| json!(r[d].is_odd())); var!("const_is_odd", |r| json!(r[d].const_is_odd())); }
        "is_even" => { let d = idx(ev, "d"); var!("is_even", |r| json!(r[d].is_even())); var!("const_is_even", |r| json!(r[d].const_is_even())); }
        "num_bits" => { let d = idx(ev, "d"); var!("num_bits", |r| json!(r[d].num_bits())); // const helper documented for moduli: meaningful when the top limb is non-zero
            var!("const_num_bits", |r| if r[d].0[N - 1] != 0 { json!(r[d].const_num_bits()) } else { json!(r[d].num_bits()) }); }
        "mod_4" => { let d = idx(ev, "d"); var!("mod_4", |r| json!(r[d].mod_4())); }
        "two_adic_valuation" => { let d = idx(ev, "d"); var!("two_adic_valuation", |r| json!(r[d].two_adic_valuation())); }
        "get_bit" => { let d = idx(ev, "d"); let i = ev["i"].as_u64().unwrap() as usize; var!("get_bit", |r| json!(r[d].get_bit(i))); }
        "to_bytes_le" => { let d = idx(ev, "d"); var!("to_bytes_le", |r| bytes_json(&r[d].to_bytes_le())); }
        "to_bytes_be" => { let d = idx(ev, "d"); var!("to_bytes_be", |r| bytes_json(&r[d].to_bytes_be())); }
        "to_bits_le" => { let d = idx(ev, "d"); var!("to_bits_le", |r| bits_json(&r[d].to_bits_le()));
            var!("bit_iterator_le", |r| bits_json(&ark_ff::BitIteratorLE::new(r[d]).collect::<Vec<_>>())); }
        "to_bits_be" => { let d = idx(ev, "d"); var!("to_bits_be", |r| bits_json(&r[d].to_bits_be()));
            var!("bit_iterator_be", |r| bits_json(&ark_ff::BitIteratorBE::new(r[d]).collect::<Vec<_>>())); }
        "to_biguint" => { let d = idx(ev, "d"); var!("into_biguint", |r| { let b: BigUint = r[d].into(); num_to_json(&b, true) });
            var!("into_num_bigint", |r| { let b: num_bigint::BigInt = r[d].into(); num_to_json(&b.to_biguint().expect("non-negative"), true) }); }
        "to_decimal" => { let d = idx(ev, "d");
            let dec = |s: String| -> Value { if s == "0" { json!([]) } else { Value::Array(s.bytes().map(|c| json!(c - b'0')).collect()) } };
            var!("display", |r| dec(format!("{}", r[d])));
            var!("debug", |r| dec(format!("{:?}", r[d]))); }
        "from_bits" => { let d = idx(ev, "d"); let be = ev["be"].as_bool().unwrap();
            let bits: Vec<bool> = ev["bits"].as_array().unwrap().iter().map(|b| b.as_u64().unwrap() == 1).collect();
            var!("from_bits", |r| { r[d] = if be { BigInt::<N>::from_bits_be(&bits) } else { BigInt::<N>::from_bits_le(&bits) }; Value::Null }); }
        "from_small" => { let d = idx(ev, "d"); let ty = ev["ty"].as_str().unwrap(); let x = num_from_json(&ev["v"], true).to_u64().unwrap();
            var!("from", |r| { r[d] = match ty { "u8" => BigInt::<N>::from(x as u8), "u16" => BigInt::<N>::from(x as u16), "u32" => BigInt::<N>::from(x as u32), _ => BigInt::<N>::from(x) }; Value::Null }); }
        "try_from" => { let d = idx(ev, "d"); let x = num_from_json(&ev["v"], true);
            var!("try_from_biguint", |r| match BigInt::<N>::try_from(x.clone()) { Ok(b) => { r[d] = b; json!("ok") } Err(_) => json!("err") }); }
        "from_str" => { let d = idx(ev, "d");
            let s: String = ev["digits"].as_array().unwrap().iter().map(|c| (b'0' + c.as_u64().unwrap() as u8) as char).collect();
            var!("from_str", |r| match BigInt::<N>::from_str(&s) { Ok(b) => { r[d] = b; json!("ok") } Err(_) => json!("err") }); }
        "find_wnaf" => { let d = idx(ev, "d"); let w = ev.get("win").unwrap_or(&ev["w"]).as_u64().unwrap() as usize;
            var!("find_wnaf", |r| match r[d].find_wnaf(w) { Some(ds) => json!(ds), None => json!("none") }); }
        "find_naf" => { let d = idx(ev, "d");
            var!("find_naf", |r| json!(find_naf(&r[d].0)));
            var!("find_naf_extra_zero_limb", |r| { let mut l = r[d].0.to_vec(); l.push(0); json!(find_naf(&l)) }); }
        "find_relaxed_naf" => { let d = idx(ev, "d"); var!("find_relaxed_naf", |r| json!(find_relaxed_naf(&r[d].0))); }
        _ => panic!("unknown bigint event {op}"),
    }
    v
}

pub fn replay<const N: usize>(trans: impl Iterator<Item = Value>) -> Report {
    let mut rep = Report::default();
    for t in trans {
        rep.transitions += 1;
        let ev = &t["ev"];
        let op = ev["op"].as_str().expect("op").to_string();
        rep.op(&op);
        let pre: Vec<BigInt<N>> = t["pre"].as_array().expect("pre").iter().map(to_big::<N>).collect();
        let want_ret = ev.get("ret").cloned().unwrap_or(Value::Null);
        if rep.transitions % 997 == 1 { rep.sample(&t); }
        intent(&t);
        for (name, f) in variants::<N>(ev) {
            rep.evaluations += 1;
            let mut regs = pre.clone();
            match guarded(|| f(&mut regs)) {
                Ok(ret) => {
                    let abs = Value::Array(regs.iter().map(from_big::<N>).collect());
                    let ret_ok = ret.is_null() || want_ret.is_null() || ret == want_ret;
                    if abs != t["post"] || !ret_ok {
                        rep.mismatch(json!({"transition": t, "variant": name, "got_post": abs, "got_ret": ret}));
                    } else if regs != pre || !(ret.is_null() || ret == json!(false) || ret == json!(0)) {
                        rep.nontrivial.insert(format!("{}|{}", t["pre"], ev));
                    }
                }
                Err(e) => rep.mismatch(json!({"transition": t, "variant": name, "error": e})),
            }
        }
    }
    rep
}

fn boundary<const N: usize>(rng: &mut Rng) -> BigUint {
    let w = BigUint::one() << (64 * N);
    let special: [u64; 8] = [0, 1, 2, 1 << 31, (1 << 63) - 1, 1 << 63, u64::MAX - 1, u64::MAX];
    match rng.below(8) {
        0 => rng.biguint_below(&w),
        1 => { let mut l = vec![0u64; N]; for x in l.iter_mut() { *x = *rng.pick(&special); } limbs_to_biguint(&l) }
        2 => { let base = if rng.coin() { 0 } else { u64::MAX }; let mut l = vec![base; N]; let i = rng.below(N as u64) as usize; l[i] = *rng.pick(&special); limbs_to_biguint(&l) }
        3 => BigUint::from(rng.below(9)),
        4 => &w - BigUint::from(1 + rng.below(70000)),
        5 => BigUint::one() << rng.below(64 * N as u64),
        6 => (BigUint::one() << (1 + rng.below(64 * N as u64))) - BigUint::one(),
        _ => { let k = 1 + rng.below(64 * N as u64); rng.biguint_below(&(BigUint::one() << k)) }
    }
}

pub fn record<const N: usize>(seed: u64, n: usize, out: &mut dyn std::io::Write) -> Report {
    let mut rep = Report::default();
    let mut rng = Rng(seed ^ 0xB16);
    const K: usize = 3;
    let mut regs: Vec<BigInt<N>> = vec![BigInt::<N>::zero(); K];
    writeln!(out, "{}", json!({"op": "reset", "nl": N, "nreg": K, "seed": seed})).unwrap();
    let bits = 64 * N as u64;
    let shifts = [0, 1, 63, 64, 65, 127, 128, bits - 1, bits, bits + 1, bits + 64];
    for step in 0..n {
        let d = rng.below(K as u64) as usize;
        let s = rng.below(K as u64) as usize;
        let mut ev: Value = match rng.below(100) {
            0..=17 => json!({"op": "load", "d": d + 1}),
            18..=41 => json!({"op": *rng.pick(&["add_with_carry", "sub_with_borrow", "mul", "mul_low", "mul_high", "and", "or", "xor"]), "d": d + 1, "s": s + 1}),
            42..=49 => json!({"op": *rng.pick(&["mul2", "div2", "not"]), "d": d + 1}),
            50..=61 => { let k = if rng.coin() { *rng.pick(&shifts) } else { rng.below(bits + 10) };
                         json!({"op": *rng.pick(&["muln", "shl", "divn", "shr"]), "d": d + 1, "k": k}) }
            62..=66 => json!({"op": *rng.pick(&["cmp", "eq"]), "d": d + 1, "s": s + 1, "i": 0}),
            67..=76 => { let q = *rng.pick(&["is_zero", "is_odd", "is_even", "num_bits", "to_bytes_le", "to_bytes_be", "to_bits_le", "to_bits_be", "to_biguint", "to_decimal", "mod_4", "two_adic_valuation"]);
                         if q == "two_adic_valuation" && (regs[d].is_even() || regs[d] == BigInt::<N>::one()) { continue }
                         json!({"op": q, "d": d + 1, "s": d + 1, "i": 0}) }
            77..=79 => json!({"op": "get_bit", "d": d + 1, "s": d + 1, "i": if rng.coin() { rng.below(bits + 8) } else { *rng.pick(&[0, 63, 64, bits - 1, bits]) }}),
            80..=83 => { let len = match rng.below(4) { 0 => bits as usize, 1 => bits as usize + 1 + rng.below(70) as usize, 2 => rng.below(bits) as usize, _ => *rng.pick(&[0usize, 1, 63, 64, 65]) };
                         let b: Vec<u8> = (0..len).map(|_| (rng.next() & 1) as u8).collect();
                         json!({"op": "from_bits", "d": d + 1, "be": rng.coin(), "bits": b}) }
            84..=85 => { let (ty, m) = *rng.pick(&[("u8", u8::MAX as u64), ("u16", u16::MAX as u64), ("u32", u32::MAX as u64), ("u64", u64::MAX)]);
                         let x = match rng.below(3) { 0 => m, 1 => 0, _ => rng.next() & m };
                         json!({"op": "from_small", "d": d + 1, "ty": ty, "v": num_to_json(&BigUint::from(x), true)}) }
            86..=88 => { let w = BigUint::one() << bits; let x = match rng.below(5) { 0 => w.clone(), 1 => &w - BigUint::one(), 2 => &w + boundary::<N>(&mut rng), 3 => BigUint::zero(), _ => boundary::<N>(&mut rng) };
                         json!({"op": "try_from", "d": d + 1, "v": num_to_json(&x, true)}) }
            89..=91 => { let w = BigUint::one() << bits; let x = match rng.below(4) { 0 => w.clone(), 1 => &w - BigUint::one(), 2 => &w * BigUint::from(3u32) + boundary::<N>(&mut rng), _ => boundary::<N>(&mut rng) };
                         let mut ds: Vec<u8> = x.to_string().bytes().map(|c| c - b'0').collect();
                         if rng.below(4) == 0 { ds.insert(0, 0); }
                         if rng.below(20) == 0 { ds.clear(); }
                         json!({"op": "from_str", "d": d + 1, "digits": ds}) }
            92..=95 => json!({"op": "find_wnaf", "d": d + 1, "win": *rng.pick(&[0u64, 1, 2, 2, 3, 4, 5, 6, 7, 8, 12, 16, 20, 64, 70])}),
            96..=97 => json!({"op": "find_naf", "d": d + 1}),
            _ => json!({"op": "find_relaxed_naf", "d": d + 1}),
        };
        let op = ev["op"].as_str().unwrap().to_string();
        rep.op(&op);
        intent(&json!({"machine": "bigint", "nl": N, "seed": seed, "step": step, "event": ev, "regs": regs.iter().map(from_big::<N>).collect::<Vec<_>>()}));
        let before = regs.clone();
        let mut ret = Value::Null;
        let mut failure = None;
        if op == "load" {
            regs[d] = match rng.below(6) { 0 => regs[s], _ => to_big::<N>(&num_to_json(&boundary::<N>(&mut rng), true)) };
        } else {
            let evc = ev.clone();
            let vs = variants::<N>(&evc);
            let (name, f) = &vs[rng.below(vs.len() as u64) as usize];
            ev["via"] = json!(name);
            match guarded(|| f(&mut regs)) { Ok(r) => ret = r, Err(e) => { failure = Some(e); regs = before.clone(); } }
        }
        rep.evaluations += 1;
        let mut w = Vec::new();
        for i in 0..K {
            let named = ev.get("d").and_then(|x| x.as_u64()) == Some(i as u64 + 1);
            let writes = ["load", "add_with_carry", "sub_with_borrow", "mul", "mul_low", "mul_high", "and", "or", "xor", "mul2", "div2", "not",
                          "muln", "shl", "divn", "shr", "from_bits", "from_small", "try_from", "from_str"].contains(&op.as_str());
            let rejected = ret == json!("err");
            if regs[i] != before[i] || (named && writes && !rejected) { w.push(json!([i + 1, from_big(&regs[i])])); }
        }
        ev["w"] = Value::Array(w);
        if !ret.is_null() { ev["ret"] = ret.clone(); }
        if let Some(f) = failure { ev["panic"] = json!(f); }
        if regs != before || !(ret.is_null() || ret == json!(false)) { rep.nontrivial.insert(format!("{op}:{step}")); }
        rep.sample(&ev);
        writeln!(out, "{}", ev).unwrap();
    }
    rep.transitions = n as u64;
    rep
}
