// placeholder until lib/gen_zoo.py generates the moduli zoo
#[macro_export]
macro_rules! with_zoo_field {
    ($id:expr, $func:ident ( $($arg:expr),* )) => { panic!("unknown field configuration {}", $id) };
}
