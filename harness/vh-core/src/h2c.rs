//! Driver for C13: hash_to_field, simplified SWU / Wahby-Boneh maps and hash_to_curve of the real
//! code, logged for validation against the RFC 9380 specification (spec/lib/H2C.tla).
use crate::curve::{CurveDrv, SWDrv};
use crate::elem::Elem;
use crate::util::*;
use ark_ec::hashing::curve_maps::{swu::{SWUConfig, SWUMap}, wb::{WBConfig, WBMap}};
use ark_ec::hashing::{map_to_curve_hasher::{MapToCurve, MapToCurveBasedHasher}, HashToCurve};
use ark_ec::short_weierstrass::{Projective, SWCurveConfig};
use ark_ec::{CurveConfig, CurveGroup};
use ark_ff::field_hashers::{DefaultFieldHasher, HashToField};
use ark_ff::PrimeField;
use num_bigint::BigUint;
use serde_json::{json, Value};
use sha2::{Sha256, Sha512};

fn coeffs<F: Elem>(c: &[F]) -> Value { Value::Array(c.iter().map(|x| x.to_abs(true).unwrap()).collect()) }
fn rand_bytes(rng: &mut Rng, lens: &[usize]) -> Vec<u8> { let n = *rng.pick(lens); (0..n).map(|_| (0x20 + rng.below(0x5f)) as u8).collect() }

/// prime-field hashing with a given hash and security parameter (also fields whose L differs from the hash block size)
pub fn record_field_hashing(seed: u64, n: usize, out: &mut dyn std::io::Write) -> Report {
    let mut rep = Report::default();
    let mut rng = Rng(seed ^ 0x4ac);
    writeln!(out, "{}", json!({"op": "reset", "kind": "fields", "p": [1], "lv": [], "a": [], "b": [], "r": [1], "h": [1], "iso_a": [], "iso_b": [],
                              "zeta": [], "iso": {}, "hash": "sha256", "k": 128, "heff": [1]})).unwrap();
    for step in 0..n {
        let msg = rand_bytes(&mut rng, &[0, 1, 3, 32, 64, 65, 128, 300]);
        let dst = rand_bytes(&mut rng, &[0, 1, 16, 43, 255, 256, 300]);
        macro_rules! go { ($F:ty, $H:ty, $hname:literal, $cnt:literal) => {{
            let h = <DefaultFieldHasher<$H, 128> as HashToField<$F>>::new(&dst);
            let r: [$F; $cnt] = h.hash_to_field::<$cnt>(&msg);
            let p: BigUint = <$F as PrimeField>::MODULUS.into();
            json!({"op": "hash_to_prime_field", "hash": $hname, "p": num_to_json(&p, true), "k": 128, "msg": bytes_json(&msg), "dst": bytes_json(&dst),
                   "count": $cnt, "ret": r.iter().map(|x| x.to_abs(true).unwrap()).collect::<Vec<_>>(), "field": stringify!($F)}) }} }
        let ev = match step % 6 {
            0 => go!(ark_test_curves::bls12_381::Fq, Sha256, "sha256", 2),
            1 => go!(ark_test_curves::bls12_381::Fq, Sha256, "sha256", 5),
            2 => go!(ark_test_curves::bls12_381::Fr, Sha256, "sha256", 1),
            3 => go!(ark_test_curves::secp256k1::Fq, Sha256, "sha256", 2),
            4 => go!(ark_test_curves::bls12_381::Fq, Sha512, "sha512", 2),
            _ => go!(ark_test_curves::mnt4_753::Fq, Sha256, "sha256", 1),
        };
        rep.op("hash_to_prime_field"); rep.evaluations += 1; rep.nontrivial.insert(format!("{step}")); rep.sample(&json!({"field": ev["field"], "msglen": msg.len(), "dstlen": dst.len()}));
        writeln!(out, "{}", ev).unwrap();
    }
    rep.transitions = n as u64;
    rep
}

pub fn record_wb<P: WBConfig>(cfg: &str, seed: u64, n: usize, out: &mut dyn std::io::Write) -> Report
where P::BaseField: Elem, <P::IsogenousCurve as CurveConfig>::BaseField: Elem {
    type D<P> = SWDrv<P>;
    let mut rep = Report::default();
    let mut rng = Rng(seed ^ 0x42c);
    let iso = P::ISOGENY_MAP;
    let r: BigUint = <P::ScalarField as PrimeField>::MODULUS.into();
    let h = limbs_to_biguint(P::COFACTOR);
    let heff = crate::cfgs::effective_cofactor(cfg).unwrap_or_else(|| h.clone());
    let hdr = json!({"op": "reset", "kind": "wb", "cfg": cfg, "seed": seed, "p": num_to_json(&P::BaseField::modulus(), true), "lv": P::BaseField::levels(true),
        "a": P::COEFF_A.to_abs(true).unwrap(), "b": P::COEFF_B.to_abs(true).unwrap(), "r": num_to_json(&r, true), "h": num_to_json(&h, true), "heff": num_to_json(&heff, true),
        "iso_a": <P::IsogenousCurve as SWCurveConfig>::COEFF_A.to_abs(true).unwrap(), "iso_b": <P::IsogenousCurve as SWCurveConfig>::COEFF_B.to_abs(true).unwrap(),
        "zeta": <P::IsogenousCurve as SWUConfig>::ZETA.to_abs(true).unwrap(),
        "iso": {"xn": coeffs(iso.x_map_numerator), "xd": coeffs(iso.x_map_denominator), "yn": coeffs(iso.y_map_numerator), "yd": coeffs(iso.y_map_denominator)},
        "hash": "sha256", "k": 128});
    writeln!(out, "{}", hdr).unwrap();
    let alpha = crate::field::boundary_values(&P::BaseField::modulus(), P::BaseField::nlimbs());
    let deg: usize = P::BaseField::shape().iter().product();
    for step in 0..n {
        let c = rng.below(10);
        let mut ev;
        let res = guarded(|| -> Value {
            if c < 3 {
                let msg = rand_bytes(&mut rng, &[0, 3, 16, 65, 133, 300]); let dst = rand_bytes(&mut rng, &[0, 1, 43, 255, 256, 280]);
                let hf = <DefaultFieldHasher<Sha256, 128> as HashToField<P::BaseField>>::new(&dst);
                let cnt = 1 + rng.below(3) as usize;
                let r: Vec<P::BaseField> = match cnt { 1 => hf.hash_to_field::<1>(&msg).to_vec(), 2 => hf.hash_to_field::<2>(&msg).to_vec(), _ => hf.hash_to_field::<3>(&msg).to_vec() };
                json!({"op": "hash_to_field", "msg": bytes_json(&msg), "dst": bytes_json(&dst), "count": cnt, "ret": coeffs(&r)})
            } else if c < 7 {
                // map on boundary and random field elements (u = 0 and other exceptional inputs included)
                let coords: Vec<BigUint> = (0..deg).map(|_| match rng.below(4) { 0 => BigUint::from(rng.below(3)), 1 => rng.pick(&alpha).clone(), _ => rng.biguint_below(&P::BaseField::modulus()) }).collect();
                let u = P::BaseField::from_coords(&coords);
                let q = SWUMap::<P::IsogenousCurve>::map_to_curve(u).expect("swu");
                if c < 5 { json!({"op": "map_swu", "u": u.to_abs(true).unwrap(), "ret": SWDrv::<P::IsogenousCurve>::aff_abs(&q, true).unwrap()}) }
                else { let p = WBMap::<P>::map_to_curve(u).expect("wb");
                       json!({"op": "map_wb", "u": u.to_abs(true).unwrap(), "q": SWDrv::<P::IsogenousCurve>::aff_abs(&q, true).unwrap(), "ret": D::<P>::aff_abs(&p, true).unwrap()}) }
            } else {
                let msg = rand_bytes(&mut rng, &[0, 3, 16, 128, 300]); let dst = rand_bytes(&mut rng, &[1, 43, 255, 256]);
                let hasher = MapToCurveBasedHasher::<Projective<P>, DefaultFieldHasher<Sha256, 128>, WBMap<P>>::new(&dst).expect("hasher");
                let p = hasher.hash(&msg).expect("hash");
                let hf = <DefaultFieldHasher<Sha256, 128> as HashToField<P::BaseField>>::new(&dst);
                let us: [P::BaseField; 2] = hf.hash_to_field::<2>(&msg);
                let qs: Vec<Value> = us.iter().map(|u| SWDrv::<P::IsogenousCurve>::aff_abs(&SWUMap::<P::IsogenousCurve>::map_to_curve(*u).unwrap(), true).unwrap()).collect();
                let again = hasher.hash(&msg).expect("hash");
                if again != p { return json!({"op": "hash_to_curve", "panic": "hashing is not deterministic"}); }
                json!({"op": "hash_to_curve", "msg": bytes_json(&msg), "dst": bytes_json(&dst), "u": coeffs(&us), "q": qs, "ret": D::<P>::aff_abs(&p, true).unwrap()})
            }
        });
        ev = match res { Ok(v) => v, Err(e) => json!({"op": "hash_to_curve", "panic": e}) };
        ev["step"] = json!(step);
        rep.op(ev["op"].as_str().unwrap()); rep.evaluations += 1; rep.nontrivial.insert(format!("{step}"));
        rep.sample(&json!({"op": ev["op"], "step": step}));
        writeln!(out, "{}", ev).unwrap();
    }
    rep.transitions = n as u64;
    rep
}


/// Elligator 2 suites (twisted Edwards curves with a Montgomery form): the map on boundary, exceptional and random inputs,
/// and hash_to_curve = clear_cofactor(map(u0) + map(u1))
pub fn record_ell2<P: ark_ec::hashing::curve_maps::elligator2::Elligator2Config>(cfg: &str, seed: u64, n: usize, out: &mut dyn std::io::Write) -> Report
where P::BaseField: Elem + PrimeField {
    use ark_ec::hashing::curve_maps::elligator2::Elligator2Map;
    use ark_ec::twisted_edwards::{MontCurveConfig, Projective as TEProjective, TECurveConfig};
    use ark_ff::{AdditiveGroup, Field};
    type D<P> = crate::curve::TEDrv<P>;
    let mut rep = Report::default();
    let mut rng = Rng(seed ^ 0xE112);
    let r: BigUint = <P::ScalarField as PrimeField>::MODULUS.into();
    let h = limbs_to_biguint(P::COFACTOR);
    let (j, k, z) = (<P as MontCurveConfig>::COEFF_A, <P as MontCurveConfig>::COEFF_B, P::Z);
    let hdr = json!({"op": "reset", "kind": "ell2", "cfg": cfg, "seed": seed, "p": num_to_json(&P::BaseField::modulus(), true), "lv": <P::BaseField as Elem>::levels(true),
        "a": <P as TECurveConfig>::COEFF_A.to_abs(true).unwrap(), "d": <P as TECurveConfig>::COEFF_D.to_abs(true).unwrap(), "b": [], "r": num_to_json(&r, true), "h": num_to_json(&h, true), "heff": num_to_json(&h, true),
        "J": j.to_abs(true).unwrap(), "K": k.to_abs(true).unwrap(), "Z": z.to_abs(true).unwrap(),
        "iso_a": [], "iso_b": [], "zeta": [], "iso": {}, "hash": "sha512", "k": 128});
    writeln!(out, "{}", hdr).unwrap();
    let alpha = crate::field::boundary_values(&P::BaseField::modulus(), <P::BaseField as Elem>::nlimbs());
    // exceptional inputs: u = 0; 1 + Z u^2 = 0; g(x1) = 0 (x1 a root of x^2 + (J/K) x + 1/K^2); s = x K = -1
    let one = <P::BaseField as ark_ff::One>::one();
    let jk = j / k;
    let mut special: Vec<P::BaseField> = vec![<P::BaseField as ark_ff::Zero>::zero(), one, -one];
    let from_x1 = |x1: P::BaseField| -> Option<P::BaseField> { let den = -jk / x1; ((den - one) / z).sqrt() };   // u with -(J/K)/(1 + Z u^2) = x1
    if let Some(u) = (-(one / z)).sqrt() { special.push(u); special.push(-u); }
    if let Some(sq) = (jk.square() - (one / k.square()).double().double()).sqrt() {
        for x1 in [(-jk + sq) / one.double(), (-jk - sq) / one.double()] { if let Some(u) = from_x1(x1) { special.push(u); } if let Some(u) = from_x1(-x1 - jk) { special.push(u); } }
    }
    for xs in [-(one / k), one / k] { if let Some(u) = from_x1(xs) { special.push(u); } if let Some(u) = from_x1(-xs - jk) { special.push(u); } }
    for step in 0..n {
        let c = rng.below(10);
        let res = guarded(|| -> Value {
            if c < 6 {
                let u = match rng.below(4) { 0 => *rng.pick(&special), 1 => P::BaseField::from_coords(&[rng.pick(&alpha).clone()]), 2 => P::BaseField::from(rng.below(40)), _ => P::BaseField::from_coords(&[rng.biguint_below(&P::BaseField::modulus())]) };
                let q = Elligator2Map::<P>::map_to_curve(u).expect("elligator2");
                json!({"op": "map_ell2", "u": u.to_abs(true).unwrap(), "ret": D::<P>::aff_abs(&q, true).unwrap()})
            } else {
                let msg = rand_bytes(&mut rng, &[0, 3, 16, 128, 300]); let dst = rand_bytes(&mut rng, &[1, 43, 255, 256]);
                let hasher = MapToCurveBasedHasher::<TEProjective<P>, DefaultFieldHasher<Sha512, 128>, Elligator2Map<P>>::new(&dst).expect("hasher");
                let p = hasher.hash(&msg).expect("hash");
                let hf = <DefaultFieldHasher<Sha512, 128> as HashToField<P::BaseField>>::new(&dst);
                let us: [P::BaseField; 2] = hf.hash_to_field::<2>(&msg);
                let qs: Vec<Value> = us.iter().map(|u| D::<P>::aff_abs(&Elligator2Map::<P>::map_to_curve(*u).unwrap(), true).unwrap()).collect();
                let again = hasher.hash(&msg).expect("hash");
                if again != p { return json!({"op": "hash_to_curve_ell2", "panic": "hashing is not deterministic"}); }
                json!({"op": "hash_to_curve_ell2", "msg": bytes_json(&msg), "dst": bytes_json(&dst), "u": coeffs(&us), "q": qs, "ret": D::<P>::aff_abs(&p, true).unwrap()})
            }
        });
        let mut ev = match res { Ok(v) => v, Err(e) => json!({"op": "map_ell2", "panic": e}) };
        ev["step"] = json!(step);
        rep.op(ev["op"].as_str().unwrap()); rep.evaluations += 1; rep.nontrivial.insert(format!("{step}"));
        rep.sample(&json!({"op": ev["op"], "step": step}));
        writeln!(out, "{}", ev).unwrap();
    }
    rep.transitions = n as u64;
    rep
}
