//! JSON / number helpers shared by every driver.
use num_bigint::BigUint;
use num_traits::{ToPrimitive, Zero};
use serde_json::{json, Value};
use std::collections::HashSet;
use std::io::BufRead;

/// A number of the specification: toy = JSON integer, big = little-endian byte array
/// without trailing zero (`[]` = 0), exactly a `BigNat` of the TLA+ side.
pub fn num_from_json(v: &Value, big: bool) -> BigUint {
    if big {
        let bytes: Vec<u8> = v
            .as_array()
            .unwrap_or_else(|| panic!("expected byte array, got {v}"))
            .iter()
            .map(|b| b.as_u64().expect("byte") as u8)
            .collect();
        BigUint::from_bytes_le(&bytes)
    } else {
        BigUint::from(v.as_u64().unwrap_or_else(|| panic!("expected integer, got {v}")))
    }
}

pub fn num_to_json(n: &BigUint, big: bool) -> Value {
    if big {
        if n.is_zero() {
            json!([])
        } else {
            Value::Array(n.to_bytes_le().into_iter().map(|b| json!(b)).collect())
        }
    } else {
        json!(n.to_u64().expect("toy number does not fit u64"))
    }
}

pub fn limbs_to_biguint(l: &[u64]) -> BigUint {
    let mut bytes = Vec::with_capacity(l.len() * 8);
    for x in l {
        bytes.extend_from_slice(&x.to_le_bytes());
    }
    BigUint::from_bytes_le(&bytes)
}

pub fn biguint_to_limbs(n: &BigUint, nlimbs: usize) -> Vec<u64> {
    let mut d = n.to_u64_digits();
    assert!(d.len() <= nlimbs, "value does not fit {nlimbs} limbs");
    d.resize(nlimbs, 0);
    d
}

pub fn bytes_json(b: &[u8]) -> Value {
    Value::Array(b.iter().map(|x| json!(x)).collect())
}
pub fn json_bytes(v: &Value) -> Vec<u8> {
    v.as_array().expect("bytes").iter().map(|b| b.as_u64().expect("byte") as u8).collect()
}

/// Iterate over the transition lines printed by TLC: `<<"T", "{...escaped json...}">>`.
pub fn tlc_transitions<R: BufRead>(r: R) -> impl Iterator<Item = Value> {
    r.lines().filter_map(|l| {
        let l = l.expect("read");
        let l = l.trim();
        if l.starts_with('{') {
            return Some(serde_json::from_str::<Value>(l).unwrap_or_else(|e| panic!("bad transition json {l}: {e}")));
        }
        let rest = l.strip_prefix("<<\"T\", \"")?;
        let body = rest.strip_suffix("\">>")?;
        let un = body.replace("\\\"", "\"").replace("\\\\", "\\");
        Some(serde_json::from_str::<Value>(&un).unwrap_or_else(|e| panic!("bad transition json {un}: {e}")))
    })
}

/// Result of a replay / record run, printed as one JSON object on stdout (last line).
#[derive(Default)]
pub struct Report {
    pub evaluations: u64,
    pub transitions: u64,
    pub nontrivial: HashSet<String>,
    pub mismatches: Vec<Value>,
    pub samples: Vec<Value>,
    pub ops: std::collections::BTreeMap<String, u64>,
}

impl Report {
    pub fn mismatch(&mut self, m: Value) {
        if self.mismatches.len() < 200 {
            self.mismatches.push(m);
        } else {
            // keep counting through a synthetic last entry
            let last = self.mismatches.last_mut().unwrap();
            let c = last.get("more").and_then(|x| x.as_u64()).unwrap_or(0);
            last["more"] = json!(c + 1);
        }
    }
    pub fn sample(&mut self, s: &Value) {
        if self.samples.len() < 5 {
            self.samples.push(s.clone());
        }
    }
    pub fn op(&mut self, name: &str) {
        *self.ops.entry(name.to_string()).or_insert(0) += 1;
    }
    pub fn to_json(&self) -> Value {
        json!({
            "evaluations": self.evaluations,
            "transitions": self.transitions,
            "distinct_nontrivial": self.nontrivial.len(),
            "mismatches": self.mismatches,
            "samples": self.samples,
            "ops": self.ops,
        })
    }
}

/// Run a closure, turning a panic into `Err(message)` ("a panic in code under test is data").
pub fn guarded<T>(f: impl FnOnce() -> T) -> Result<T, String> {
    match std::panic::catch_unwind(std::panic::AssertUnwindSafe(f)) {
        Ok(v) => Ok(v),
        Err(e) => {
            let msg = if let Some(s) = e.downcast_ref::<&str>() {
                s.to_string()
            } else if let Some(s) = e.downcast_ref::<String>() {
                s.clone()
            } else {
                "panic".to_string()
            };
            Err(format!("panic: {msg}"))
        }
    }
}

/// splitmix64: tiny deterministic generator for the drivers (no dependency on the code under test)
pub struct Rng(pub u64);
impl Rng {
    pub fn next(&mut self) -> u64 {
        self.0 = self.0.wrapping_add(0x9E3779B97F4A7C15);
        let mut z = self.0;
        z = (z ^ (z >> 30)).wrapping_mul(0xBF58476D1CE4E5B9);
        z = (z ^ (z >> 27)).wrapping_mul(0x94D049BB133111EB);
        z ^ (z >> 31)
    }
    pub fn below(&mut self, n: u64) -> u64 {
        if n == 0 { 0 } else { self.next() % n }
    }
    pub fn pick<'a, T>(&mut self, v: &'a [T]) -> &'a T {
        &v[self.below(v.len() as u64) as usize]
    }
    pub fn coin(&mut self) -> bool {
        self.next() & 1 == 1
    }
    pub fn bytes(&mut self, n: usize) -> Vec<u8> {
        (0..n).map(|_| self.next() as u8).collect()
    }
    /// uniform-ish value below `bound`
    pub fn biguint_below(&mut self, bound: &BigUint) -> BigUint {
        let n = (bound.bits() as usize + 7) / 8 + 8;
        BigUint::from_bytes_le(&self.bytes(n)) % bound
    }
}

/// Intent log: the case about to be executed is written (and flushed) to $VH_INTENT before the
/// call, so that a hang or an abort of the process can be attributed to a concrete input.
pub fn intent(v: &Value) {
    use std::io::Write;
    use std::sync::{Mutex, OnceLock};
    static F: OnceLock<Option<Mutex<std::fs::File>>> = OnceLock::new();
    let f = F.get_or_init(|| std::env::var_os("VH_INTENT").map(|p| Mutex::new(std::fs::File::create(p).expect("intent file"))));
    if let Some(m) = f {
        use std::io::Seek;
        let mut g = m.lock().unwrap();
        let _ = g.set_len(0);
        let _ = g.seek(std::io::SeekFrom::Start(0));
        let _ = writeln!(g, "{}", v);
    }
}
