//! Driver for C18: a zoo of composite types through CanonicalSerialize / CanonicalDeserialize.
//! Abstract values: integers are their little-endian byte strings, options are [] / [v],
//! sequences / sets / maps are arrays, points are those of the toy curve sw13_1_0.
use crate::curve::{CurveDrv, SWDrv};
use crate::gen_toy::SW13_1_0;
use crate::util::*;
use ark_serialize::{
    CanonicalDeserialize, CanonicalSerialize, Compress, CompressedChecked, UncompressedChecked, Validate,
};
use num_bigint::BigUint;
use serde_json::{json, Value};
use std::collections::{BTreeMap, BTreeSet, LinkedList, VecDeque};
use std::rc::Rc;
use std::sync::Arc;

type PD = SWDrv<SW13_1_0>;
type Pt = ark_ec::short_weierstrass::Affine<SW13_1_0>;

/// JSON <-> Rust value for every type of the zoo
pub trait J: Sized {
    fn from_j(v: &Value) -> Self;
    fn to_j(&self) -> Value;
}
macro_rules! int_j { ($($t:ty),*) => { $( impl J for $t {
    fn from_j(v: &Value) -> Self { let b = json_bytes(v); let mut a = [0u8; std::mem::size_of::<$t>()]; a.copy_from_slice(&b); <$t>::from_le_bytes(a) }
    fn to_j(&self) -> Value { bytes_json(&self.to_le_bytes()) } } )* } }
int_j!(u8, u16, u32, u64, i8, i16, i32, i64);
impl J for usize { fn from_j(v: &Value) -> Self { u64::from_j(v) as usize } fn to_j(&self) -> Value { (*self as u64).to_j() } }
impl J for bool { fn from_j(v: &Value) -> Self { v.as_bool().unwrap() } fn to_j(&self) -> Value { json!(*self) } }
impl<T: J> J for Option<T> {
    fn from_j(v: &Value) -> Self { v.as_array().unwrap().first().map(T::from_j) }
    fn to_j(&self) -> Value { match self { None => json!([]), Some(x) => json!([x.to_j()]) } } }
fn seq_from<T: J>(v: &Value) -> Vec<T> { v.as_array().unwrap().iter().map(T::from_j).collect() }
impl<T: J> J for Vec<T> { fn from_j(v: &Value) -> Self { seq_from(v) } fn to_j(&self) -> Value { Value::Array(self.iter().map(|x| x.to_j()).collect()) } }
impl<T: J> J for VecDeque<T> { fn from_j(v: &Value) -> Self { seq_from::<T>(v).into() } fn to_j(&self) -> Value { Value::Array(self.iter().map(|x| x.to_j()).collect()) } }
impl<T: J> J for LinkedList<T> { fn from_j(v: &Value) -> Self { seq_from::<T>(v).into_iter().collect() } fn to_j(&self) -> Value { Value::Array(self.iter().map(|x| x.to_j()).collect()) } }
impl<T: J + Ord> J for BTreeSet<T> { fn from_j(v: &Value) -> Self { seq_from::<T>(v).into_iter().collect() } fn to_j(&self) -> Value { Value::Array(self.iter().map(|x| x.to_j()).collect()) } }
impl<K: J + Ord, V: J> J for BTreeMap<K, V> {
    fn from_j(v: &Value) -> Self { v.as_array().unwrap().iter().map(|kv| (K::from_j(&kv[0]), V::from_j(&kv[1]))).collect() }
    fn to_j(&self) -> Value { Value::Array(self.iter().map(|(k, v)| json!([k.to_j(), v.to_j()])).collect()) } }
impl<A: J, B: J> J for (A, B) { fn from_j(v: &Value) -> Self { (A::from_j(&v[0]), B::from_j(&v[1])) } fn to_j(&self) -> Value { json!([self.0.to_j(), self.1.to_j()]) } }
impl<A: J, B: J, C: J> J for (A, B, C) { fn from_j(v: &Value) -> Self { (A::from_j(&v[0]), B::from_j(&v[1]), C::from_j(&v[2])) } fn to_j(&self) -> Value { json!([self.0.to_j(), self.1.to_j(), self.2.to_j()]) } }
impl<T: J + std::fmt::Debug, const N: usize> J for [T; N] { fn from_j(v: &Value) -> Self { seq_from::<T>(v).try_into().unwrap() } fn to_j(&self) -> Value { Value::Array(self.iter().map(|x| x.to_j()).collect()) } }
impl J for String { fn from_j(v: &Value) -> Self { String::from_utf8(json_bytes(v)).unwrap() } fn to_j(&self) -> Value { bytes_json(self.as_bytes()) } }
impl J for BigUint { fn from_j(v: &Value) -> Self { BigUint::from_bytes_le(&json_bytes(v)) } fn to_j(&self) -> Value { bytes_json(&self.to_bytes_le()) } }
impl<T: J> J for Rc<T> { fn from_j(v: &Value) -> Self { Rc::new(T::from_j(v)) } fn to_j(&self) -> Value { (**self).to_j() } }
impl<T: J> J for Arc<T> { fn from_j(v: &Value) -> Self { Arc::new(T::from_j(v)) } fn to_j(&self) -> Value { (**self).to_j() } }
impl<T: J + Clone> J for std::borrow::Cow<'static, T> { fn from_j(v: &Value) -> Self { std::borrow::Cow::Owned(T::from_j(v)) } fn to_j(&self) -> Value { self.as_ref().to_j() } }
impl<T: J> J for CompressedChecked<T> { fn from_j(v: &Value) -> Self { CompressedChecked(T::from_j(v)) } fn to_j(&self) -> Value { self.0.to_j() } }
impl<T: J> J for UncompressedChecked<T> { fn from_j(v: &Value) -> Self { UncompressedChecked(T::from_j(v)) } fn to_j(&self) -> Value { self.0.to_j() } }
impl J for Pt { fn from_j(v: &Value) -> Self { PD::aff(v, false) } fn to_j(&self) -> Value { PD::aff_abs(self, false).expect("canonical point") } }

/// Rc<T> only implements CanonicalSerialize: serialize through the Rc, deserialize as the inner type
pub struct RcU16(u16);
impl J for RcU16 { fn from_j(v: &Value) -> Self { RcU16(u16::from_j(v)) } fn to_j(&self) -> Value { self.0.to_j() } }
impl CanonicalSerialize for RcU16 {
    fn serialize_with_mode<W: ark_serialize::Write>(&self, w: W, c: Compress) -> Result<(), ark_serialize::SerializationError> { Rc::new(self.0).serialize_with_mode(w, c) }
    fn serialized_size(&self, c: Compress) -> usize { Rc::new(self.0).serialized_size(c) }
}
impl ark_serialize::Valid for RcU16 { fn check(&self) -> Result<(), ark_serialize::SerializationError> { Ok(()) } }
impl CanonicalDeserialize for RcU16 {
    fn deserialize_with_mode<R: ark_serialize::Read>(r: R, c: Compress, v: Validate) -> Result<Self, ark_serialize::SerializationError> { u16::deserialize_with_mode(r, c, v).map(RcU16) }
}

#[derive(CanonicalSerialize, CanonicalDeserialize, Clone, PartialEq, Debug)]
pub struct Named { a: u8, b: Vec<u16>, c: bool }
#[derive(CanonicalSerialize, CanonicalDeserialize, Clone, PartialEq, Debug)]
pub struct Tup(u16, Option<bool>);
#[derive(CanonicalSerialize, CanonicalDeserialize, Clone, PartialEq, Debug)]
pub struct Nested((u8, bool), u16);
#[derive(CanonicalSerialize, CanonicalDeserialize, Clone, PartialEq, Debug)]
pub struct Gen<T: CanonicalSerialize + CanonicalDeserialize>(T, Vec<T>);
impl J for Named { fn from_j(v: &Value) -> Self { Named { a: J::from_j(&v[0]), b: J::from_j(&v[1]), c: J::from_j(&v[2]) } } fn to_j(&self) -> Value { json!([self.a.to_j(), self.b.to_j(), self.c.to_j()]) } }
impl J for Tup { fn from_j(v: &Value) -> Self { Tup(J::from_j(&v[0]), J::from_j(&v[1])) } fn to_j(&self) -> Value { json!([self.0.to_j(), self.1.to_j()]) } }
impl J for Nested { fn from_j(v: &Value) -> Self { Nested(J::from_j(&v[0]), J::from_j(&v[1])) } fn to_j(&self) -> Value { json!([self.0.to_j(), self.1.to_j()]) } }
impl J for Gen<u8> { fn from_j(v: &Value) -> Self { Gen(J::from_j(&v[0]), J::from_j(&v[1])) } fn to_j(&self) -> Value { json!([self.0.to_j(), self.1.to_j()]) } }

fn enc<T: J + CanonicalSerialize>(v: &Value, c: Compress, want_size: usize) -> Vec<(String, Result<Value, String>)> {
    let mut out = Vec::new();
    let x = T::from_j(v);
    let chk = |bytes: Vec<u8>, size: usize| -> Result<Value, String> {
        if size != want_size { return Err(format!("advertised size {size}, specification says {want_size}")); }
        if bytes.len() != size { return Err(format!("wrote {} bytes but advertised {size}", bytes.len())); }
        Ok(bytes_json(&bytes)) };
    out.push(("serialize_with_mode".to_string(), guarded(|| { let mut b = vec![]; x.serialize_with_mode(&mut b, c).map_err(|e| e.to_string())?; chk(b, x.serialized_size(c)) }).and_then(|r| r)));
    out.push(("shorthand".to_string(), guarded(|| { let mut b = vec![];
        match c { Compress::Yes => x.serialize_compressed(&mut b), Compress::No => x.serialize_uncompressed(&mut b) }.map_err(|e| e.to_string())?;
        chk(b, match c { Compress::Yes => x.compressed_size(), Compress::No => x.uncompressed_size() }) }).and_then(|r| r)));
    out.push(("exact_size_buffer".to_string(), guarded(|| { let mut buf = vec![0u8; want_size]; let mut w: &mut [u8] = &mut buf;
        x.serialize_with_mode(&mut w, c).map_err(|e| format!("does not fit the advertised size: {e}"))?;
        if !w.is_empty() { return Err("wrote fewer bytes than advertised".into()); } Ok(bytes_json(&buf)) }).and_then(|r| r)));
    out.push(("by_reference".to_string(), guarded(|| { let mut b = vec![]; (&x).serialize_with_mode(&mut b, c).map_err(|e| e.to_string())?; chk(b, (&x).serialized_size(c)) }).and_then(|r| r)));
    out
}
fn dec<T: J + CanonicalDeserialize>(bytes: &[u8], c: Compress) -> Vec<(String, Result<Value, String>)> {
    let mut out = Vec::new();
    out.push(("deserialize_with_mode".to_string(), guarded(|| { let mut r: &[u8] = bytes;
        Ok(match T::deserialize_with_mode(&mut r, c, Validate::Yes) { Err(_) => json!("err"), Ok(x) => json!({"v": x.to_j(), "n": bytes.len() - r.len()}) }) }).and_then(|r: Result<Value, String>| r)));
    out.push(("shorthand".to_string(), guarded(|| { let mut r: &[u8] = bytes;
        let res = match c { Compress::Yes => T::deserialize_compressed(&mut r), Compress::No => T::deserialize_uncompressed(&mut r) };
        Ok(match res { Err(_) => json!("err"), Ok(x) => json!({"v": x.to_j(), "n": bytes.len() - r.len()}) }) }).and_then(|r: Result<Value, String>| r)));
    out
}

macro_rules! zoo {
    ($name:expr, $f:ident ( $($arg:expr),* )) => { match $name {
        "u8" => $f::<u8>($($arg),*), "u16" => $f::<u16>($($arg),*), "u32" => $f::<u32>($($arg),*), "u64" => $f::<u64>($($arg),*),
        "i8" => $f::<i8>($($arg),*), "i16" => $f::<i16>($($arg),*), "i32" => $f::<i32>($($arg),*), "i64" => $f::<i64>($($arg),*), "usize" => $f::<usize>($($arg),*),
        "bool" => $f::<bool>($($arg),*), "opt_u8" => $f::<Option<u8>>($($arg),*), "opt_bool" => $f::<Option<bool>>($($arg),*), "opt_vec_u8" => $f::<Option<Vec<u8>>>($($arg),*),
        "vec_u8" => $f::<Vec<u8>>($($arg),*), "vec_u16" => $f::<Vec<u16>>($($arg),*), "vec_bool" => $f::<Vec<bool>>($($arg),*), "vec_opt_u8" => $f::<Vec<Option<u8>>>($($arg),*),
        "vec_vec_u8" => $f::<Vec<Vec<u8>>>($($arg),*), "deque_u16" => $f::<VecDeque<u16>>($($arg),*), "list_u8" => $f::<LinkedList<u8>>($($arg),*),
        "tup_u8_bool" => $f::<(u8, bool)>($($arg),*), "tup_u16_vec_u8" => $f::<(u16, Vec<u8>)>($($arg),*), "tup3" => $f::<(bool, u8, Option<u16>)>($($arg),*),
        "arr2_u16" => $f::<[u16; 2]>($($arg),*), "arr3_bool" => $f::<[bool; 3]>($($arg),*),
        "string" => $f::<String>($($arg),*), "biguint" => $f::<BigUint>($($arg),*),
        "set_u8" => $f::<BTreeSet<u8>>($($arg),*), "map_u8_u16" => $f::<BTreeMap<u8, u16>>($($arg),*),
        "rc_u16" => $f::<RcU16>($($arg),*), "arc_vec_u8" => $f::<Arc<Vec<u8>>>($($arg),*), "cow_u8" => $f::<std::borrow::Cow<'static, u8>>($($arg),*),
        "pinned_vec_u16" => $f::<CompressedChecked<Vec<u16>>>($($arg),*),
        "derive_named" => $f::<Named>($($arg),*), "derive_tuple" => $f::<Tup>($($arg),*), "derive_nested" => $f::<Nested>($($arg),*), "derive_generic_u8" => $f::<Gen<u8>>($($arg),*),
        "point" => $f::<Pt>($($arg),*), "unc_checked_point" => $f::<UncompressedChecked<Pt>>($($arg),*), "cmp_checked_point" => $f::<CompressedChecked<Pt>>($($arg),*),
        "vec_unc_checked_point" => $f::<Vec<UncompressedChecked<Pt>>>($($arg),*), "tup_point_cmp_point" => $f::<(Pt, CompressedChecked<Pt>)>($($arg),*),
        "unc_checked_vec_u16" => $f::<UncompressedChecked<Vec<u16>>>($($arg),*),
        other => panic!("unknown zoo type {}", other) } } }

pub fn replay(trans: impl Iterator<Item = Value>) -> Report {
    let mut rep = Report::default();
    for t in trans {
        rep.transitions += 1;
        let ev = &t["ev"];
        let op = ev["op"].as_str().unwrap();
        rep.op(op);
        let ty = ev["ty"].as_str().unwrap();
        let c = if ev["cm"].as_str() == Some("c") { Compress::Yes } else { Compress::No };
        if rep.transitions % 4999 == 1 { rep.sample(&t); }
        intent(&t);
        let want = ev["ret"].clone();
        let res = if op == "enc" { let sz = ev["size"].as_u64().unwrap() as usize; zoo!(ty, enc(&ev["v"], c, sz)) }
                  else { let b = json_bytes(&ev["bytes"]); zoo!(ty, dec(&b, c)) };
        let mut ok = true;
        for (name, r) in res {
            rep.evaluations += 1;
            match r {
                Ok(ret) => if ret != want { ok = false; rep.mismatch(json!({"transition": t, "variant": name, "got_ret": ret})); },
                Err(e) => { ok = false; rep.mismatch(json!({"transition": t, "variant": name, "error": e})); }
            }
        }
        if ok && want != json!("err") { rep.nontrivial.insert(format!("{}", ev)); }
    }
    rep
}
