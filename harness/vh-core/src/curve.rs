//! Driver for CurveMachine: short Weierstrass and twisted Edwards groups of ark-ec.
//! Concrete operands are built from the specification's abstract points through EVERY
//! projective rescaling (toy) or sampled ones (full size), independently of the group code.
use crate::elem::Elem;
use crate::util::*;
use ark_ec::{
    scalar_mul::{wnaf::WnafContext, BatchMulPreprocessing, ScalarMul},
    short_weierstrass as swm, twisted_edwards as tem, AffineRepr, CurveGroup, PrimeGroup,
};
use ark_ff::{AdditiveGroup, BigInteger, Field, PrimeField, Zero};
use num_bigint::BigUint;
use num_traits::ToPrimitive;
use serde_json::{json, Value};
use std::marker::PhantomData;

pub trait CurveDrv: 'static {
    type B: Elem;
    type S: PrimeField;
    type G: CurveGroup<BaseField = Self::B, ScalarField = Self::S>;
    const KIND: &'static str;
    /// affine element from an abstract point (unchecked constructor)
    fn aff(j: &Value, big: bool) -> <Self::G as CurveGroup>::Affine;
    /// projective representative of an abstract point, rescaled by lam (non-zero)
    fn proj(j: &Value, lam: &Self::B, big: bool) -> Self::G;
    /// abstraction function of the projective representation (checks its invariants)
    fn proj_abs(g: &Self::G, big: bool) -> Result<Value, String>;
    fn aff_abs(a: &<Self::G as CurveGroup>::Affine, big: bool) -> Result<Value, String>;
    fn aff_on_curve(a: &<Self::G as CurveGroup>::Affine) -> bool;
    fn aff_in_subgroup(a: &<Self::G as CurveGroup>::Affine) -> bool;
    /// curve parameters as the specification describes them
    fn params(big: bool) -> Value;
    /// raw projective coordinates (Montgomery limbs), for traces
    fn raw(g: &Self::G) -> Value;
    /// a curve point with the given coordinate (x for short Weierstrass, y for twisted Edwards), if any
    fn from_coord(c: Self::B, greatest: bool) -> Option<Aff<Self>>;
    /// multiply all projective coordinates so that the same point gets another representative
    fn rescale(g: &Self::G, lam: &Self::B) -> Self::G;
    /// is the addition law complete on the whole curve (always for short Weierstrass with its case analysis; twisted Edwards:
    /// a square and d non-square)?  Scalar multiples of points OUTSIDE the subgroup are only meaningful then.
    fn complete() -> bool { true }
    /// both solutions for the other coordinate (get_ys_from_x_unchecked / get_xs_from_y_unchecked)
    fn recover(c: Self::B) -> Option<(Self::B, Self::B)>;
    /// GLV (only for configurations that ship it): eigenvalue, scalar decomposition, endomorphism-accelerated multiplication
    fn glv_lambda() -> Option<BigUint> { None }
    fn glv_decomp(_k: &Self::S) -> Option<((bool, Self::S), (bool, Self::S))> { None }
    fn glv_mul(_g: &Self::G, _k: &Self::S, _affine: bool) -> Option<Self::G> { None }
}

pub struct SWDrv<P>(PhantomData<P>);
pub struct TEDrv<P>(PhantomData<P>);
/// a short Weierstrass configuration that ships GLV parameters: SWDrv plus the GLV entry points
pub struct GlvDrv<P>(PhantomData<P>);
impl<P: ark_ec::scalar_mul::glv::GLVConfig> CurveDrv for GlvDrv<P>
where
    P::BaseField: Elem,
{
    type B = P::BaseField;
    type S = P::ScalarField;
    type G = swm::Projective<P>;
    const KIND: &'static str = "sw";
    fn aff(j: &Value, big: bool) -> swm::Affine<P> { SWDrv::<P>::aff(j, big) }
    fn proj(j: &Value, lam: &Self::B, big: bool) -> Self::G { SWDrv::<P>::proj(j, lam, big) }
    fn proj_abs(g: &Self::G, big: bool) -> Result<Value, String> { SWDrv::<P>::proj_abs(g, big) }
    fn aff_abs(a: &swm::Affine<P>, big: bool) -> Result<Value, String> { SWDrv::<P>::aff_abs(a, big) }
    fn aff_on_curve(a: &swm::Affine<P>) -> bool { SWDrv::<P>::aff_on_curve(a) }
    fn aff_in_subgroup(a: &swm::Affine<P>) -> bool { SWDrv::<P>::aff_in_subgroup(a) }
    fn params(big: bool) -> Value { SWDrv::<P>::params(big) }
    fn raw(g: &Self::G) -> Value { SWDrv::<P>::raw(g) }
    fn from_coord(c: Self::B, greatest: bool) -> Option<swm::Affine<P>> { SWDrv::<P>::from_coord(c, greatest) }
    fn rescale(g: &Self::G, lam: &Self::B) -> Self::G { SWDrv::<P>::rescale(g, lam) }
    fn recover(c: Self::B) -> Option<(Self::B, Self::B)> { SWDrv::<P>::recover(c) }
    fn glv_lambda() -> Option<BigUint> { Some(P::LAMBDA.into_bigint().into()) }
    fn glv_decomp(k: &Self::S) -> Option<((bool, Self::S), (bool, Self::S))> { Some(P::scalar_decomposition(*k)) }
    fn glv_mul(g: &Self::G, k: &Self::S, affine: bool) -> Option<Self::G> {
        Some(if affine { P::glv_mul_affine(g.into_affine(), *k).into() } else { P::glv_mul_projective(*g, *k) })
    }
}

fn is_inf(j: &Value) -> bool {
    j.as_array().map_or(false, |a| a.is_empty())
}

impl<P: swm::SWCurveConfig> CurveDrv for SWDrv<P>
where
    P::BaseField: Elem,
{
    type B = P::BaseField;
    type S = P::ScalarField;
    type G = swm::Projective<P>;
    const KIND: &'static str = "sw";
    fn aff(j: &Value, big: bool) -> swm::Affine<P> {
        if is_inf(j) {
            swm::Affine::identity()
        } else {
            swm::Affine::new_unchecked(Self::B::from_abs(&j[0], big), Self::B::from_abs(&j[1], big))
        }
    }
    fn proj(j: &Value, lam: &Self::B, big: bool) -> Self::G {
        let l2 = lam.square();
        let l3 = l2 * lam;
        if is_inf(j) {
            // the point at infinity of the Jacobian model: (t^2 : t^3 : 0)
            swm::Projective::new_unchecked(l2, l3, Self::B::zero())
        } else {
            swm::Projective::new_unchecked(Self::B::from_abs(&j[0], big) * l2, Self::B::from_abs(&j[1], big) * l3, *lam)
        }
    }
    fn proj_abs(g: &Self::G, big: bool) -> Result<Value, String> {
        if g.z.is_zero() {
            return Ok(json!([]));
        }
        let zi = g.z.inverse().ok_or("z not invertible")?;
        let zi2 = zi.square();
        Ok(json!([(g.x * zi2).to_abs(big)?, (g.y * zi2 * zi).to_abs(big)?]))
    }
    fn aff_abs(a: &swm::Affine<P>, big: bool) -> Result<Value, String> {
        if a.infinity {
            Ok(json!([]))
        } else {
            Ok(json!([a.x.to_abs(big)?, a.y.to_abs(big)?]))
        }
    }
    fn aff_on_curve(a: &swm::Affine<P>) -> bool {
        a.is_on_curve()
    }
    fn aff_in_subgroup(a: &swm::Affine<P>) -> bool {
        a.is_in_correct_subgroup_assuming_on_curve()
    }
    fn params(big: bool) -> Value {
        json!({"kind": "sw", "a": P::COEFF_A.to_abs(big).unwrap(), "b": P::COEFF_B.to_abs(big).unwrap()})
    }
    fn raw(g: &Self::G) -> Value {
        json!([g.x.raw_json(), g.y.raw_json(), g.z.raw_json()])
    }
    fn from_coord(c: Self::B, greatest: bool) -> Option<swm::Affine<P>> {
        swm::Affine::get_point_from_x_unchecked(c, greatest)
    }
    fn recover(c: Self::B) -> Option<(Self::B, Self::B)> {
        swm::Affine::<P>::get_ys_from_x_unchecked(c)
    }
    fn rescale(g: &Self::G, lam: &Self::B) -> Self::G {
        let l2 = lam.square();
        swm::Projective::new_unchecked(g.x * l2, g.y * l2 * lam, g.z * lam)
    }
}

impl<P: tem::TECurveConfig> CurveDrv for TEDrv<P>
where
    P::BaseField: Elem,
{
    type B = P::BaseField;
    type S = P::ScalarField;
    type G = tem::Projective<P>;
    const KIND: &'static str = "te";
    fn aff(j: &Value, big: bool) -> tem::Affine<P> {
        tem::Affine::new_unchecked(Self::B::from_abs(&j[0], big), Self::B::from_abs(&j[1], big))
    }
    fn proj(j: &Value, lam: &Self::B, big: bool) -> Self::G {
        let (x, y) = (Self::B::from_abs(&j[0], big), Self::B::from_abs(&j[1], big));
        tem::Projective::new_unchecked(x * lam, y * lam, x * y * lam, *lam)
    }
    fn proj_abs(g: &Self::G, big: bool) -> Result<Value, String> {
        if g.z.is_zero() {
            return Err("extended coordinates with Z = 0".into());
        }
        if g.t * g.z != g.x * g.y {
            return Err("extended-coordinate invariant T*Z = X*Y broken".into());
        }
        let zi = g.z.inverse().unwrap();
        Ok(json!([(g.x * zi).to_abs(big)?, (g.y * zi).to_abs(big)?]))
    }
    fn aff_abs(a: &tem::Affine<P>, big: bool) -> Result<Value, String> {
        Ok(json!([a.x.to_abs(big)?, a.y.to_abs(big)?]))
    }
    fn aff_on_curve(a: &tem::Affine<P>) -> bool {
        a.is_on_curve()
    }
    fn aff_in_subgroup(a: &tem::Affine<P>) -> bool {
        a.is_in_correct_subgroup_assuming_on_curve()
    }
    fn params(big: bool) -> Value {
        json!({"kind": "te", "a": P::COEFF_A.to_abs(big).unwrap(), "d": P::COEFF_D.to_abs(big).unwrap()})
    }
    fn raw(g: &Self::G) -> Value {
        json!([g.x.raw_json(), g.y.raw_json(), g.t.raw_json(), g.z.raw_json()])
    }
    fn from_coord(c: Self::B, greatest: bool) -> Option<tem::Affine<P>> {
        tem::Affine::get_point_from_y_unchecked(c, greatest)
    }
    fn recover(c: Self::B) -> Option<(Self::B, Self::B)> {
        tem::Affine::<P>::get_xs_from_y_unchecked(c)
    }
    fn complete() -> bool {
        use ark_ff::Field;
        P::COEFF_A.legendre().is_qr() && P::COEFF_D.legendre().is_qnr()
    }
    fn rescale(g: &Self::G, lam: &Self::B) -> Self::G {
        tem::Projective::new_unchecked(g.x * lam, g.y * lam, g.t * lam, g.z * lam)
    }
}

type Aff<D> = <<D as CurveDrv>::G as CurveGroup>::Affine;

fn idx(ev: &Value, k: &str) -> usize {
    ev[k].as_u64().unwrap_or_else(|| panic!("event field {k} missing in {ev}")) as usize - 1
}
fn idxs(ev: &Value, k: &str) -> Vec<usize> {
    ev[k].as_array().expect("index list").iter().map(|x| x.as_u64().unwrap() as usize - 1).collect()
}

/// All scalings used for a toy curve: every non-zero element of a small base field, a spread
/// sample otherwise.
pub fn scalings<B: Elem>(max: usize) -> Vec<B> {
    let p = B::modulus().to_u64().unwrap_or(u64::MAX);
    let deg: usize = B::shape().iter().product();
    let mut out = Vec::new();
    if deg == 1 && p <= max as u64 + 1 {
        for v in 1..p {
            out.push(B::from_coords(&[BigUint::from(v)]));
        }
    } else {
        let mut rng = Rng(0x5ca1e);
        out.push(B::one());
        while out.len() < max {
            let c: Vec<BigUint> = (0..deg).map(|_| rng.biguint_below(&B::modulus())).collect();
            let e = B::from_coords(&c);
            if !e.is_zero() {
                out.push(e);
            }
        }
    }
    out
}

/// One execution: (variant name, resulting concrete register file, returned value)
type Exec<G> = (String, Result<(Vec<G>, Value), String>);

fn k_limbs(k: &BigUint) -> Vec<u64> {
    let mut l = k.to_u64_digits();
    if l.is_empty() {
        l.push(0);
    }
    l
}

/// Execute one event on concrete representatives `regs` (projective), through every API variant.
pub fn exec_event<D: CurveDrv>(ev: &Value, regs: &[D::G], big: bool, only: Option<&str>) -> Vec<Exec<D::G>> {
    let op = ev["op"].as_str().expect("op");
    let mut out: Vec<Exec<D::G>> = Vec::new();
    // with only = Some("?") the variants are listed but not executed
    macro_rules! var {
        ($name:expr, |$r:ident| $body:expr) => {{
            let nm = $name.to_string();
            if only == Some("?") { out.push((nm, Err(String::new()))); }
            else if only.map_or(true, |o| o == nm) {
                let mut $r: Vec<D::G> = regs.to_vec();
                let res = guarded(|| $body).map(|ret: Value| ($r.clone(), ret));
                out.push((nm, res));
            }
        }};
    }
    match op {
        "add" | "sub" => {
            let (d, s) = (idx(ev, "d"), idx(ev, "s"));
            let add = op == "add";
            var!("proj_val", |r| { r[d] = if add { r[d] + r[s] } else { r[d] - r[s] }; Value::Null });
            var!("proj_ref", |r| { let q = r[s]; r[d] = if add { r[d] + &q } else { r[d] - &q }; Value::Null });
            var!("proj_assign", |r| { let q = r[s]; if add { r[d] += q } else { r[d] -= q }; Value::Null });
            var!("proj_assign_ref", |r| { let q = r[s]; if add { r[d] += &q } else { r[d] -= &q }; Value::Null });
            var!("mixed_val", |r| { let q: Aff<D> = r[s].into_affine(); r[d] = if add { r[d] + q } else { r[d] - q }; Value::Null });
            var!("mixed_assign", |r| { let q: Aff<D> = r[s].into_affine(); if add { r[d] += q } else { r[d] -= q }; Value::Null });
            var!("mixed_assign_ref", |r| { let q: Aff<D> = r[s].into_affine(); if add { r[d] += &q } else { r[d] -= &q }; Value::Null });
            var!("affine_affine", |r| { let p: Aff<D> = r[d].into_affine(); let q: Aff<D> = r[s].into_affine();
                                        r[d] = if add { p.into_group() + q } else { p.into_group() - q }; Value::Null });
            if add {
                var!("sum_iter", |r| { r[d] = [r[d], r[s]].iter().sum(); Value::Null });
                var!("sum_into_iter", |r| { r[d] = vec![r[d], r[s]].into_iter().sum(); Value::Null });
            } else {
                var!("add_neg", |r| { let q = -r[s]; r[d] += q; Value::Null });
            }
        }
        "dbl" => {
            let d = idx(ev, "d");
            var!("double", |r| { r[d] = r[d].double(); Value::Null });
            var!("double_in_place", |r| { r[d].double_in_place(); Value::Null });
            var!("add_self", |r| { let q = r[d]; r[d] += &q; Value::Null });
            var!("add_self_mixed", |r| { let q: Aff<D> = r[d].into_affine(); r[d] += q; Value::Null });
        }
        "neg" => {
            let d = idx(ev, "d");
            var!("neg", |r| { r[d] = -r[d]; Value::Null });
            var!("neg_in_place", |r| { r[d].neg_in_place(); Value::Null });
            var!("neg_affine", |r| { let q: Aff<D> = r[d].into_affine(); r[d] = (-q).into(); Value::Null });
            var!("zero_minus", |r| { r[d] = D::G::zero() - r[d]; Value::Null });
        }
        "sum" => {
            let d = idx(ev, "d");
            let ss = idxs(ev, "ss");
            let s1 = ss.clone();
            var!("sum_iter", |r| { r[d] = s1.iter().map(|&i| r[i]).collect::<Vec<_>>().iter().sum(); Value::Null });
            let s2 = ss.clone();
            var!("sum_into_iter", |r| { r[d] = s2.iter().map(|&i| r[i]).sum(); Value::Null });
        }
        "mul" => {
            let d = idx(ev, "d");
            let k = num_from_json(&ev["k"], big);
            let r_mod: BigUint = D::S::MODULUS.into();
            let limbs = k_limbs(&k);
            let alg = ev["alg"].as_str().unwrap_or("all");
            let want = |a: &str| alg == "all" || alg == a;
            if want("mul_bigint") {
                let l = limbs.clone();
                var!("mul_bigint", |r| { r[d] = r[d].mul_bigint(&l); Value::Null });
                let mut l2 = limbs.clone(); l2.push(0); l2.push(0);
                var!("mul_bigint_leading_zero_limbs", |r| { r[d] = r[d].mul_bigint(&l2); Value::Null });
                let l3 = limbs.clone();
                var!("affine_mul_bigint", |r| { let q: Aff<D> = r[d].into_affine(); r[d] = q.mul_bigint(&l3); Value::Null });
            }
            if want("mul_bits_be") {
                let bits: Vec<bool> = ark_ff::BitIteratorBE::new(limbs.clone()).collect();
                let b1 = bits.clone();
                var!("mul_bits_be", |r| { r[d] = r[d].mul_bits_be(b1.clone().into_iter()); Value::Null });
                let b2: Vec<bool> = ark_ff::BitIteratorBE::without_leading_zeros(limbs.clone()).collect();
                var!("mul_bits_be_no_leading_zeros", |r| { r[d] = r[d].mul_bits_be(b2.clone().into_iter()); Value::Null });
            }
            if k < r_mod {
                // paths that take a scalar-field element
                let l = biguint_to_limbs(&k, <D::S as PrimeField>::BigInt::NUM_LIMBS);
                let mut bi = <D::S as PrimeField>::BigInt::default();
                bi.as_mut().copy_from_slice(&l);
                let s = D::S::from_bigint(bi).expect("k < r");
                if want("scalar") {
                    var!("mul_scalar", |r| { r[d] = r[d] * s; Value::Null });
                    var!("mul_scalar_ref", |r| { r[d] = r[d] * &s; Value::Null });
                    var!("mul_assign_scalar", |r| { r[d] *= s; Value::Null });
                    var!("affine_mul_scalar", |r| { let q: Aff<D> = r[d].into_affine(); r[d] = q * s; Value::Null });
                }
                for w in 2usize..=6 {
                    if want(&format!("wnaf{w}")) {
                        var!(format!("wnaf{w}"), |r| { r[d] = WnafContext::new(w).mul(r[d], &s); Value::Null });
                        var!(format!("wnaf{w}_table"), |r| { let c = WnafContext::new(w); let t = c.table(r[d]); r[d] = c.mul_with_table(&t, &s).expect("table large enough"); Value::Null });
                        var!(format!("wnaf{w}_short_table"), |r| { let c = WnafContext::new(w); let mut t = c.table(r[d]); t.pop();
                            match c.mul_with_table(&t, &s) { None => json!("skip"), Some(_) => panic!("mul_with_table accepted a table that is too short") } });
                    }
                }
                if want("batch") {
                    for n in [1usize, 2, 31, 32, 33] {
                        var!(format!("batch_mul_{n}"), |r| {
                            let v = vec![s; n];
                            let res = r[d].batch_mul(&v);
                            let first: D::G = res[0].into();
                            if res.iter().any(|x| { let g: D::G = (*x).into(); g != first }) { return json!("batch results differ"); }
                            r[d] = first; Value::Null });
                    }
                    let sbits = <D::S as PrimeField>::MODULUS_BIT_SIZE as usize;
                    for extra in [0usize, 1, 5] {
                        var!(format!("batch_table_size_plus_{extra}"), |r| {
                            let t = BatchMulPreprocessing::with_num_scalars_and_scalar_size(r[d], 3, sbits + extra);
                            let res = t.batch_mul(&[s, s, s]);
                            r[d] = res[2].into(); Value::Null });
                    }
                }
            }
        }
        "eq" => {
            let (d, s) = (idx(ev, "d"), idx(ev, "s"));
            var!("proj_eq", |r| json!(r[d] == r[s]));
            var!("proj_ne", |r| json!(!(r[d] != r[s])));
            var!("affine_eq", |r| { let p: Aff<D> = r[d].into_affine(); let q: Aff<D> = r[s].into_affine(); json!(p == q) });
            var!("hash_consistent", |r| {
                use std::hash::{Hash, Hasher};
                let h = |x: &D::G| { let mut s = std::collections::hash_map::DefaultHasher::new(); x.hash(&mut s); s.finish() };
                if r[d] == r[s] && h(&r[d]) != h(&r[s]) { json!("equal points hash differently") } else { json!(r[d] == r[s]) } });
        }
        "is_zero" => {
            let d = idx(ev, "d");
            var!("proj_is_zero", |r| json!(r[d].is_zero()));
            var!("affine_is_zero", |r| { let p: Aff<D> = r[d].into_affine(); json!(p.is_zero()) });
            var!("eq_zero", |r| json!(r[d] == D::G::zero()));
        }
        "on_curve" => { let d = idx(ev, "d"); var!("is_on_curve", |r| { let p: Aff<D> = r[d].into_affine(); json!(D::aff_on_curve(&p)) }); }
        "in_subgroup" => {
            let d = idx(ev, "d");
            var!("is_in_correct_subgroup", |r| { let p: Aff<D> = r[d].into_affine(); json!(D::aff_in_subgroup(&p)) });
        }
        "clear_cofactor" => { let d = idx(ev, "d"); var!("clear_cofactor", |r| { let p: Aff<D> = r[d].into_affine(); r[d] = p.clear_cofactor().into(); Value::Null }); }
        "mul_by_cofactor" => {
            let d = idx(ev, "d");
            var!("mul_by_cofactor", |r| { let p: Aff<D> = r[d].into_affine(); r[d] = p.mul_by_cofactor().into(); Value::Null });
            var!("mul_by_cofactor_to_group", |r| { let p: Aff<D> = r[d].into_affine(); r[d] = p.mul_by_cofactor_to_group(); Value::Null });
        }
        "mul_by_cofactor_inv" => { let d = idx(ev, "d"); var!("mul_by_cofactor_inv", |r| { let p: Aff<D> = r[d].into_affine(); r[d] = p.mul_by_cofactor_inv().into(); Value::Null }); }
        "affine_roundtrip" => {
            let ds = idxs(ev, "ds");
            var!("into_affine_into_group", |r| { for &i in &ds { let p: Aff<D> = r[i].into_affine(); r[i] = p.into_group(); } Value::Null });
            let ds2 = idxs(ev, "ds");
            var!("from_into", |r| { for &i in &ds2 { let p: Aff<D> = r[i].into(); r[i] = p.into(); } Value::Null });
        }
        "normalize_batch" => {
            let ds = idxs(ev, "ds");
            var!("normalize_batch", |r| {
                let v: Vec<D::G> = ds.iter().map(|&i| r[i]).collect();
                let a = D::G::normalize_batch(&v);
                if a.len() != v.len() { return json!("length changed"); }
                for (k, &i) in ds.iter().enumerate() { r[i] = a[k].into(); }
                Value::Null });
            let ds2 = idxs(ev, "ds");
            var!("batch_convert_to_mul_base", |r| {
                let v: Vec<D::G> = ds2.iter().map(|&i| r[i]).collect();
                let a = <D::G as ScalarMul>::batch_convert_to_mul_base(&v);
                for (k, &i) in ds2.iter().enumerate() { r[i] = a[k].into(); }
                Value::Null });
        }
        _ => panic!("unknown curve event {op}"),
    }
    out
}

/// Conformance A: every TLC transition, through every pair of projective representatives.
pub fn replay<D: CurveDrv>(trans: impl Iterator<Item = Value>, big: bool) -> Report {
    let mut rep = Report::default();
    let lams = scalings::<D::B>(30);
    for t in trans {
        rep.transitions += 1;
        let ev = &t["ev"];
        let op = ev["op"].as_str().expect("op").to_string();
        rep.op(&op);
        let pre = t["pre"].as_array().expect("pre");
        let post = t["post"].as_array().expect("post").clone();
        let want_ret = ev.get("ret").cloned().unwrap_or(Value::Null);
        if rep.transitions % 499 == 1 { rep.sample(&t); }
        intent(&t);
        // representatives: all scalings of register 1 x (a few scalings of register 2)
        let l2: Vec<&D::B> = if pre.len() > 1 { lams.iter().step_by((lams.len() / 6).max(1)).collect() } else { vec![&lams[0]] };
        let heavy = op == "mul";
        let all = std::env::var_os("VH_ALL_SCALINGS").is_some();
        let l1: Vec<&D::B> = if heavy { lams.iter().step_by((lams.len() / 3).max(1)).collect() }
                             else if all || lams.len() <= 12 { lams.iter().collect() }
                             else { lams.iter().step_by(lams.len() / 12 + 1).collect() };
        let mut ok_all = true;
        'outer: for la in &l1 {
            for lb in &l2 {
                let regs: Vec<D::G> = pre.iter().enumerate().map(|(i, p)| D::proj(p, if i == 0 { la } else { lb }, big)).collect();
                for (name, res) in exec_event::<D>(ev, &regs, big, None) {
                    rep.evaluations += 1;
                    let res: Result<(Vec<Value>, Value), String> = res.and_then(|(r, ret)| {
                        r.iter().map(|g| D::proj_abs(g, big)).collect::<Result<Vec<Value>, String>>().map(|a| (a, ret)) });
                    let bad = match &res {
                        Ok((_, ret)) if ret.as_str() == Some("skip") => false,
                        Ok((abs, ret)) => {
                            let ret_ok = ret.is_null() || (want_ret.is_null() && !ret.is_string()) || *ret == want_ret;
                            abs != &post || !ret_ok
                        }
                        Err(_) => true,
                    };
                    if bad {
                        ok_all = false;
                        let (gp, gr, err) = match res { Ok((a, r)) => (json!(a), r, Value::Null), Err(e) => (Value::Null, Value::Null, json!(e)) };
                        rep.mismatch(json!({"transition": t, "variant": name, "got_post": gp, "got_ret": gr, "error": err,
                                            "scalings": [la.to_abs(big).unwrap_or(Value::Null), lb.to_abs(big).unwrap_or(Value::Null)]}));
                        break 'outer;
                    }
                }
            }
        }
        if ok_all && t["pre"] != t["post"] { rep.nontrivial.insert(format!("{}|{}", t["pre"], ev)); }
        if ok_all && t["pre"] == t["post"] && !want_ret.is_null() { rep.nontrivial.insert(format!("{}|{}", t["pre"], ev)); }
    }
    rep
}

// ---------------------------------------------------------------------------------------
// Conformance B: seeded programs on full-size curves, logged with RAW projective coordinates.

fn random_base<B: Elem>(rng: &mut Rng) -> B {
    let deg: usize = B::shape().iter().product();
    let p = B::modulus();
    let c: Vec<BigUint> = (0..deg).map(|_| match rng.below(6) { 0 => BigUint::from(rng.below(5)), _ => rng.biguint_below(&p) }).collect();
    B::from_coords(&c)
}

/// one "msm" event: bases a_i * regs[s] (a_i < 16), scalars k_i; regs[d] := msm(bases, scalars) through a randomly chosen entry point
fn record_msm<D: CurveDrv>(cfg: &str, seed: u64, step: usize, rng: &mut Rng, regs: &mut Vec<D::G>, d: usize, s: usize, r_mod: &BigUint, rep: &mut Report) -> Value {
    use ark_ec::scalar_mul::variable_base::{verif_hooks, VariableBaseMSM};
    use ark_ff::BigInteger;
    let lens = [0usize, 1, 2, 3, 7, 31, 32, 33, 64, 100, 127, 128, 255, 256, 257, 500, 1000, 1025];
    let len = *rng.pick(&lens[..]);
    let one = BigUint::from(1u32);
    let sbits = <D::S as PrimeField>::MODULUS_BIT_SIZE as u64;
    // multiples 0..15 of the source point
    let src = regs[s];
    let mut mult: Vec<D::G> = vec![D::G::zero()];
    for i in 1..16 { let prev = mult[i - 1]; mult.push(prev + src); }
    let mult_aff = D::G::normalize_batch(&mult);
    let style = rng.below(6);
    let mut as_: Vec<u64> = Vec::with_capacity(len); let mut ks: Vec<BigUint> = Vec::with_capacity(len);
    for i in 0..len {
        as_.push(match style { 0 => 1, 1 => (i % 16) as u64, _ => rng.below(16) });
        ks.push(match if style == 2 { 20 } else { rng.below(16) } {
            0 => BigUint::from(0u32), 1 => one.clone(), 2 => r_mod - &one, 3 => r_mod - BigUint::from(rng.below(4) + 1),
            4 => (&one << rng.below(sbits)) % r_mod, 5 => ((&one << rng.below(sbits)) - &one) % r_mod,   // window-boundary patterns: 2^j, 2^j - 1
            6 => BigUint::from(rng.below(1 << 16)), 7 => (&one << (sbits - 1)) % r_mod,
            20 => r_mod - &one,                                                                           // all scalars maximal
            _ => rng.biguint_below(r_mod) });
    }
    let bases: Vec<<D::G as CurveGroup>::Affine> = as_.iter().map(|&a| mult_aff[a as usize]).collect();
    let scalars: Vec<D::S> = ks.iter().map(|k| D::S::from_le_bytes_mod_order(&k.to_bytes_le())).collect();
    let bigints: Vec<<D::S as PrimeField>::BigInt> = scalars.iter().map(|x| x.into_bigint()).collect();
    // fixed-base batch multiplication of the source point by all scalars, folded with the small coefficients a_i:
    //   sum_i a_i (k_i P) - the same linear combination as an MSM over the bases a_i P, so the specification's action is the same
    let alg = *rng.pick(&["msm", "msm_unchecked", "msm_bigint", "msm_chunks", "hook_plain", "hook_signed", "batch_mul", "batch_mul_table"]);
    let mut ev = json!({"op": "msm", "d": d + 1, "s": s + 1, "alg": alg, "len": len,
                        "as": as_.iter().map(|&a| num_to_json(&BigUint::from(a), true)).collect::<Vec<_>>(),
                        "ks": ks.iter().map(|k| num_to_json(k, true)).collect::<Vec<_>>()});
    rep.op("msm");
    intent(&json!({"machine": "curve", "cfg": cfg, "seed": seed, "step": step, "event": {"op": "msm", "alg": alg, "len": len}}));
    let res = guarded(|| -> D::G {
        match alg {
            "msm" => <D::G as VariableBaseMSM>::msm(&bases, &scalars).expect("equal lengths"),
            "msm_unchecked" => <D::G as VariableBaseMSM>::msm_unchecked(&bases, &scalars),
            "msm_bigint" => <D::G as VariableBaseMSM>::msm_bigint(&bases, &bigints),
            "msm_chunks" => <D::G as VariableBaseMSM>::msm_chunks(&bases.as_slice(), &scalars.as_slice()),
            "hook_plain" => verif_hooks::msm_bigint_plain::<D::G>(&bases, &bigints),
            "batch_mul" | "batch_mul_table" => {
                use ark_ec::scalar_mul::{BatchMulPreprocessing, ScalarMul};
                let outs: Vec<<D::G as CurveGroup>::Affine> = if alg == "batch_mul" { src.batch_mul(&scalars) }
                    else { // a table sized for a different number of scalars than it is used for
                           let t = BatchMulPreprocessing::new(src, [1usize, 31, 32, 200, 5000][(step % 5) as usize]); <D::G as ScalarMul>::batch_mul_with_preprocessing(&t, &scalars) };
                assert_eq!(outs.len(), scalars.len(), "batch_mul returned a vector of another length");
                let mut acc = D::G::zero();
                for (o, &a) in outs.iter().zip(&as_) { for _ in 0..a { acc += *o; } }
                acc
            }
            _ => verif_hooks::msm_bigint_signed::<D::G>(&bases, &bigints),
        }
    });
    rep.evaluations += 1;
    match res {
        Ok(g) => { regs[d] = g; if !g.is_zero() { rep.nontrivial.insert(format!("msm:{step}")); } }
        Err(e) => { ev["panic"] = json!(e); }
    }
    let _ = BigInteger::is_zero(&bigints.get(0).cloned().unwrap_or_default());
    ev["w"] = json!([[d + 1, D::raw(&regs[d])]]);
    rep.sample(&json!({"op": "msm", "alg": alg, "len": len}));
    ev
}

/// coordinate recovery, point-from-coordinate, random sampling, GLV decomposition and GLV multiplication
fn record_aux<D: CurveDrv>(cfg: &str, seed: u64, n: usize, out: &mut dyn std::io::Write) -> Report {
    use ark_ec::CurveConfig;
    use ark_std::rand::{rngs::StdRng, SeedableRng};
    use ark_std::UniformRand;
    let mut rep = Report::default();
    let mut rng = Rng(seed ^ 0xA0C5);
    let mut srng = StdRng::seed_from_u64(seed);
    const K: usize = 4;
    let r_mod: BigUint = D::S::MODULUS.into();
    let p = D::B::modulus();
    let h = limbs_to_biguint(<<D::G as CurveGroup>::Config as CurveConfig>::COFACTOR);
    let mut hdr = D::params(true);
    hdr["op"] = json!("reset"); hdr["cfg"] = json!(cfg); hdr["seed"] = json!(seed); hdr["profile"] = json!("aux");
    hdr["p"] = num_to_json(&p, true); hdr["nlimbs"] = json!(D::B::nlimbs()); hdr["lv"] = json!(D::B::levels(true));
    hdr["r"] = num_to_json(&r_mod, true); hdr["h"] = num_to_json(&h, true); hdr["nreg"] = json!(K);
    if let Some(l) = D::glv_lambda() { hdr["lambda"] = num_to_json(&l, true); }
    writeln!(out, "{}", hdr).unwrap();
    let gen: D::G = <D::G as PrimeGroup>::generator();
    let mut regs: Vec<D::G> = vec![D::G::zero(); K];
    let sbits = 64 * <D::S as PrimeField>::BigInt::NUM_LIMBS as u64;
    let deg: usize = D::B::shape().iter().product::<usize>().max(1);
    let mut step = 0;
    while step < n {
        step += 1;
        let d = rng.below(K as u64) as usize;
        let c = rng.below(100);
        let has_glv = D::glv_lambda().is_some();
        let mut ev: Value;
        let before = regs[d];
        if c < 15 {
            // load a subgroup point (random representative)
            let pnt = gen.mul_bigint(k_limbs(&rng.biguint_below(&r_mod)));
            let lam = loop { let l = random_base::<D::B>(&mut rng); if !l.is_zero() { break l } };
            regs[d] = D::rescale(&pnt, &lam);
            ev = json!({"op": "load", "d": d + 1});
        } else if c < 45 {
            // both solutions for the other coordinate of c: c random, structured, or the coordinate of a known point
            let cval: D::B = match rng.below(5) {
                0 => { let a = regs[d].into_affine(); let j = D::aff_abs(&a, true).unwrap(); if is_inf(&j) { random_base::<D::B>(&mut rng) } else { D::B::from_abs(&j[if D::KIND == "sw" { 0 } else { 1 }], true) } }
                1 => D::B::from(rng.below(12)),
                2 => { let mut cs = vec![BigUint::from(0u32); deg]; let i = rng.below(deg as u64) as usize; cs[i] = &p - BigUint::from(rng.below(5) + 1); D::B::from_coords(&cs) }
                _ => random_base::<D::B>(&mut rng),
            };
            ev = json!({"op": "recover", "c": cval.to_abs(true).unwrap()});
            rep.op("recover");
            match guarded(|| D::recover(cval)) {
                Ok(Some((u1, u2))) => { ev["got"] = json!([u1.to_abs(true).unwrap_or(json!("non-canonical")), u2.to_abs(true).unwrap_or(json!("non-canonical"))]); rep.nontrivial.insert(format!("recover:{step}")); }
                Ok(None) => { ev["got"] = json!([]); }
                Err(e) => { ev["got"] = json!([]); ev["panic"] = json!(e); }
            }
            ev["w"] = json!([]);
            rep.evaluations += 1;
            writeln!(out, "{}", ev).unwrap();
            continue;
        } else if c < 60 {
            let cval: D::B = if rng.coin() { D::B::from(rng.below(30)) } else { random_base::<D::B>(&mut rng) };
            let greatest = rng.coin();
            match guarded(|| D::from_coord(cval, greatest)) {
                Ok(Some(a)) => { regs[d] = a.into_group(); ev = json!({"op": "from_coord", "d": d + 1, "c": cval.to_abs(true).unwrap(), "greatest": greatest}); }
                Ok(None) => continue,
                Err(e) => { ev = json!({"op": "from_coord", "d": d + 1, "c": cval.to_abs(true).unwrap(), "greatest": greatest, "panic": e}); }
            }
        } else if c < 75 {
            let affine = rng.coin();
            match guarded(|| if affine { <D::G as CurveGroup>::Affine::rand(&mut srng).into_group() } else { D::G::rand(&mut srng) }) {
                Ok(g) => { regs[d] = g; ev = json!({"op": "rand", "d": d + 1, "via": if affine { "affine_rand" } else { "projective_rand" }}); }
                Err(e) => { ev = json!({"op": "rand", "d": d + 1, "panic": e}); }
            }
        } else if !has_glv { continue } else {
            let one = BigUint::from(1u32);
            let k = match rng.below(10) { 0 => BigUint::from(0u32), 1 => one.clone(), 2 => &r_mod - &one, 3 => BigUint::from(u64::MAX), 4 => (&one << rng.below(sbits.min(r_mod.bits()))) % &r_mod, 5 => D::glv_lambda().unwrap(), 6 => (&r_mod - D::glv_lambda().unwrap()) % &r_mod, _ => rng.biguint_below(&r_mod) };
            let ks = D::S::from_le_bytes_mod_order(&k.to_bytes_le());
            if c < 87 {
                rep.op("glv_decomp"); rep.evaluations += 1;
                ev = json!({"op": "glv_decomp", "k": num_to_json(&k, true), "w": []});
                match guarded(|| D::glv_decomp(&ks).unwrap()) {
                    Ok(((s1, k1), (s2, k2))) => { let b1: BigUint = k1.into_bigint().into(); let b2: BigUint = k2.into_bigint().into();
                        ev["s1"] = json!(s1); ev["k1"] = num_to_json(&b1, true); ev["s2"] = json!(s2); ev["k2"] = num_to_json(&b2, true); rep.nontrivial.insert(format!("glv_decomp:{step}")); }
                    Err(e) => { ev["panic"] = json!(e); ev["s1"] = json!(true); ev["k1"] = json!([]); ev["s2"] = json!(true); ev["k2"] = json!([]); }
                }
                writeln!(out, "{}", ev).unwrap();
                continue;
            }
            // endomorphism-accelerated multiplication (claimed on the prime-order subgroup)
            if !D::aff_in_subgroup(&regs[d].into_affine()) { continue }
            let affine = rng.coin();
            ev = json!({"op": "mul", "d": d + 1, "k": num_to_json(&k, true), "alg": if affine { "glv_mul_affine" } else { "glv_mul_projective" }});
            let src = regs[d];
            match guarded(|| D::glv_mul(&src, &ks, affine).unwrap()) { Ok(g) => regs[d] = g, Err(e) => { ev["panic"] = json!(e); } }
        }
        let op = ev["op"].as_str().unwrap().to_string();
        rep.op(&op); rep.evaluations += 1;
        intent(&json!({"machine": "curve", "cfg": cfg, "seed": seed, "step": step, "event": ev}));
        ev["w"] = json!([[d + 1, D::raw(&regs[d])]]);
        if regs[d] != before && !regs[d].is_zero() { rep.nontrivial.insert(format!("{op}:{step}")); }
        rep.sample(&json!({"op": op, "via": ev.get("via"), "alg": ev.get("alg")}));
        writeln!(out, "{}", ev).unwrap();
    }
    rep.transitions = n as u64;
    rep
}

pub fn random_base_pub<B: Elem>(rng: &mut Rng) -> B { random_base::<B>(rng) }

pub fn record<D: CurveDrv>(cfg: &str, seed: u64, n: usize, profile: &str, out: &mut dyn std::io::Write) -> Report {
    use ark_ec::CurveConfig;
    if profile == "ser" { return crate::ser::record_big::<D>(cfg, seed, n, out); }
    if profile == "aux" { return record_aux::<D>(cfg, seed, n, out); }
    let mut rep = Report::default();
    let mut rng = Rng(seed ^ 0xC0FFEE);
    const K: usize = 4;
    let r_mod: BigUint = D::S::MODULUS.into();
    let h = limbs_to_biguint(<<D::G as CurveGroup>::Config as CurveConfig>::COFACTOR);
    let mut hdr = D::params(true);
    hdr["op"] = json!("reset"); hdr["cfg"] = json!(cfg); hdr["seed"] = json!(seed); hdr["profile"] = json!(profile);
    hdr["p"] = num_to_json(&D::B::modulus(), true); hdr["nlimbs"] = json!(D::B::nlimbs()); hdr["lv"] = json!(D::B::levels(true));
    hdr["r"] = num_to_json(&r_mod, true); hdr["h"] = num_to_json(&h, true); hdr["nreg"] = json!(K);
    if let Some(he) = crate::cfgs::effective_cofactor(cfg) { hdr["heff"] = num_to_json(&he, true); }
    else if crate::cfgs::clear_cofactor_is_optimised(cfg) { hdr["heff_rel"] = json!(true); }
    writeln!(out, "{}", hdr).unwrap();
    let gen: D::G = <D::G as PrimeGroup>::generator();
    let mut regs: Vec<D::G> = vec![D::G::zero(); K];
    let sbits = 64 * <D::S as PrimeField>::BigInt::NUM_LIMBS as u64;
    let scalar = |rng: &mut Rng| -> BigUint {
        let one = BigUint::from(1u32);
        match rng.below(12) {
            0 => BigUint::from(0u32), 1 => one.clone(), 2 => BigUint::from(2u32), 3 => &r_mod - &one, 4 => r_mod.clone(), 5 => &r_mod + &one,
            6 => (&one << sbits) - &one, 7 => BigUint::from(u64::MAX), 8 => &one << 64, 9 => rng.biguint_below(&(&one << sbits)),
            _ => rng.biguint_below(&r_mod),
        }
    };
    let mul_w = if profile == "mul" { 35 } else if profile == "subgroup" { 6 } else { 8 };
    let sub_w = if profile == "subgroup" { 30 } else { 5 };
    let mut mul_budget = if profile == "mul" { n } else { n / 6 + 20 };
    let mut pending_query: Option<usize> = None;
    let mut step = 0;
    while step < n {
        step += 1;
        let d = rng.below(K as u64) as usize;
        let s = rng.below(K as u64) as usize;
        if profile == "msm" && step % 3 != 1 {
            // full-size multi-scalar multiplication over known multiples of a register
            let e = record_msm::<D>(cfg, seed, step, &mut rng, &mut regs, d, s, &r_mod, &mut rep);
            writeln!(out, "{}", e).unwrap();
            continue;
        }
        let c = if profile == "msm" { rng.below(16) } else { rng.below(100 + mul_w + sub_w) };
        let mut ev: Value = if let Some(q) = pending_query.take() { json!({"op": "in_subgroup", "d": q + 1, "s": q + 1}) } else if c < 16 { json!({"op": "load", "d": d + 1}) }
            else if c < 36 { json!({"op": "add", "d": d + 1, "s": s + 1}) }
            else if c < 48 { json!({"op": "sub", "d": d + 1, "s": s + 1}) }
            else if c < 58 { json!({"op": "dbl", "d": d + 1}) }
            else if c < 64 { json!({"op": "neg", "d": d + 1}) }
            else if c < 70 { let m = rng.below(6) as usize; let ss: Vec<u64> = (0..m).map(|_| rng.below(K as u64) + 1).collect(); json!({"op": "sum", "d": d + 1, "ss": ss}) }
            else if c < 80 { json!({"op": *rng.pick(&["eq", "is_zero", "on_curve"]), "d": d + 1, "s": s + 1}) }
            else if c < 90 { let m = rng.below(5) as usize; let ds: Vec<u64> = (0..m).map(|_| rng.below(K as u64) + 1).collect(); json!({"op": "normalize_batch", "ds": ds}) }
            else if c < 100 { json!({"op": "affine_roundtrip", "ds": [d + 1]}) }
            else if c < 100 + mul_w {
                if mul_budget == 0 { continue } mul_budget -= 1;
                let algs = ["mul_bigint", "mul_bits_be", "scalar", "wnaf2", "wnaf3", "wnaf4", "wnaf5", "wnaf6", "batch"];
                let alg = *rng.pick(&algs);
                let mut k = scalar(&mut rng);
                if !["mul_bigint", "mul_bits_be"].contains(&alg) { k %= &r_mod; }
                let outside = !D::aff_in_subgroup(&regs[d].into_affine());
                // GLV-backed projective multiplication is only claimed on the subgroup: outside of it the
                // behaviour is exercised (and reported as a known finding) by the "mul" profile only
                if outside && profile != "mul" && crate::cfgs::glv_backed_mul(cfg) { continue }
                let mut e = json!({"op": "mul", "d": d + 1, "k": num_to_json(&k, true), "alg": alg});
                if outside { e["outside"] = json!(true); }
                e }
            else {
                if mul_budget == 0 { continue } mul_budget -= 1;
                let q = *rng.pick(&["in_subgroup", "in_subgroup", "clear_cofactor", "clear_cofactor", "mul_by_cofactor", "mul_by_cofactor_inv"]);
                if q == "mul_by_cofactor_inv" && !D::aff_in_subgroup(&regs[d].into_affine()) { continue }
                json!({"op": q, "d": d + 1, "s": d + 1}) };
        let op = ev["op"].as_str().unwrap().to_string();
        rep.op(&op);
        intent(&json!({"machine": "curve", "cfg": cfg, "seed": seed, "step": step, "event": ev, "regs": regs.iter().map(|g| D::raw(g)).collect::<Vec<_>>()}));
        let before = regs.clone();
        let mut ret = Value::Null;
        let mut failure = None;
        if op == "load" {
            // the subgroup profile mostly loads points from arbitrary coordinates (outside the subgroup when the cofactor is > 1)
            // and points of small order (r.P for such a P: its order divides the cofactor), and queries every loaded point
            let pick = if profile == "subgroup" { [3u64, 3, 3, 3, 4, 5, 12, 12, 12, 0, 6, 9][rng.below(12) as usize] } else { rng.below(12) };
            let pick = if pick == 12 && !D::complete() { 3 } else { pick };
            let arbitrary = |rng: &mut Rng| -> D::G { let mut found = None;
                for _ in 0..200 { if let Some(a) = D::from_coord(random_base::<D::B>(rng), rng.coin()) { found = Some(a); break; } }
                found.map(|a| a.into_group()).unwrap_or(gen) };
            let p: D::G = match pick {
                0 => D::G::zero(),
                1 => regs[s],
                2 => -regs[s],
                3 | 4 | 5 => arbitrary(&mut rng),
                12 => arbitrary(&mut rng).mul_bigint(k_limbs(&r_mod)),          // order divides the cofactor
                6 => gen,
                _ => gen.mul_bigint(k_limbs(&rng.biguint_below(&r_mod))),
            };
            if profile == "subgroup" { pending_query = Some(d); }
            // store an arbitrary projective representative
            let lam = loop { let l = random_base::<D::B>(&mut rng); if !l.is_zero() { break l } };
            regs[d] = if rng.below(4) == 0 { p } else { D::rescale(&p, &lam) };
        } else {
            let evc = ev.clone();
            let names: Vec<String> = exec_event::<D>(&evc, &regs, true, Some("?")).into_iter().map(|e| e.0).filter(|n| !n.ends_with("_short_table")).collect();
            if names.is_empty() { continue }
            let pick = names[rng.below(names.len() as u64) as usize].clone();
            ev["via"] = json!(pick);
            match exec_event::<D>(&evc, &regs, true, Some(&pick)).pop().expect("variant").1 {
                Ok((r, rv)) => { regs = r; ret = rv; }
                Err(e) => failure = Some(e),
            }
        }
        rep.evaluations += 1;
        let mut w = Vec::new();
        let writes = !["eq", "is_zero", "on_curve", "in_subgroup"].contains(&op.as_str());
        for i in 0..K {
            let named = ev.get("d").and_then(|x| x.as_u64()) == Some(i as u64 + 1)
                || ev.get("ds").and_then(|x| x.as_array()).map_or(false, |a| a.iter().any(|x| x.as_u64() == Some(i as u64 + 1)));
            if D::raw(&regs[i]) != D::raw(&before[i]) || (named && writes) { w.push(json!([i + 1, D::raw(&regs[i])])); }
        }
        ev["w"] = Value::Array(w);
        if !ret.is_null() && ret.as_str() != Some("skip") { ev["ret"] = ret; }
        if let Some(f) = failure { ev["panic"] = json!(f); }
        if regs.iter().zip(&before).any(|(a, b)| a != b && !a.is_zero()) { rep.nontrivial.insert(format!("{op}:{step}")); }
        rep.sample(&json!({"op": op, "via": ev.get("via"), "k": ev.get("k")}));
        writeln!(out, "{}", ev).unwrap();
    }
    rep.transitions = n as u64;
    rep
}

