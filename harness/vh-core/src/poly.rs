//! Driver for PolyMachine: ark-poly univariate polynomials (dense / sparse / mixed) and
//! evaluation domains (radix-2, mixed-radix, general).
use crate::elem::Elem;
use crate::util::*;
use ark_ff::{FftField, Field, PrimeField};
use ark_poly::{
    univariate::{DenseOrSparsePolynomial, DensePolynomial, SparsePolynomial},
    DenseUVPolynomial, EvaluationDomain, Evaluations, GeneralEvaluationDomain, MixedRadixEvaluationDomain, Polynomial,
    Radix2EvaluationDomain,
};
use serde_json::{json, Value};

pub trait PF: PrimeField + FftField + Elem {}
impl<T: PrimeField + FftField + Elem> PF for T {}

fn coeffs_from<F: PF>(j: &Value, big: bool) -> Vec<F> {
    j.as_array().expect("coefficient list").iter().map(|c| F::from_abs(c, big)).collect()
}
fn dense_from<F: PF>(j: &Value, big: bool) -> DensePolynomial<F> {
    // the abstract value is canonical: build the struct directly (no constructor under test)
    DensePolynomial { coeffs: coeffs_from::<F>(j, big) }
}
fn sparse_from<F: PF>(j: &Value, big: bool) -> SparsePolynomial<F> {
    let c = coeffs_from::<F>(j, big);
    let terms: Vec<(usize, F)> = c.into_iter().enumerate().filter(|(_, x)| !x.is_zero()).collect();
    // build through the slice constructor of already canonical terms (sorted, non-zero)
    SparsePolynomial::from_coefficients_vec(terms)
}
/// abstraction of a dense polynomial: the STORED coefficient vector (so that a leading zero is visible)
fn dense_abs<F: PF>(p: &DensePolynomial<F>, big: bool) -> Result<Value, String> {
    Ok(Value::Array(p.coeffs.iter().map(|c| c.to_abs(big)).collect::<Result<Vec<_>, _>>()?))
}
/// abstraction of a sparse polynomial: checks the canonical form (sorted, non-zero), returns dense coefficients
fn sparse_abs<F: PF>(p: &SparsePolynomial<F>, big: bool) -> Result<Value, String> {
    let t: &[(usize, F)] = p;
    for w in t.windows(2) { if w[0].0 >= w[1].0 { return Err(format!("sparse terms not strictly sorted: degrees {} then {}", w[0].0, w[1].0)); } }
    if t.iter().any(|(_, c)| c.is_zero()) { return Err("sparse polynomial stores a zero coefficient".into()); }
    let n = t.last().map_or(0, |x| x.0 + 1);
    let mut v = vec![F::zero(); n];
    for (d, c) in t { v[*d] = *c; }
    Ok(Value::Array(v.iter().map(|c| c.to_abs(big)).collect::<Result<Vec<_>, _>>()?))
}
fn vec_abs<F: PF>(v: &[F], big: bool) -> Result<Value, String> {
    Ok(Value::Array(v.iter().map(|c| c.to_abs(big)).collect::<Result<Vec<_>, _>>()?))
}
fn idx(ev: &Value, k: &str) -> usize { ev[k].as_u64().unwrap_or_else(|| panic!("event field {k} missing in {ev}")) as usize - 1 }

/// A domain of the requested kind with the size / generator / offset the specification names.
fn make_domain<F: PF, D: EvaluationDomain<F>>(dom: &Value, big: bool) -> Result<D, String> {
    let n = dom["n"].as_u64().unwrap() as usize;
    let g = F::from_abs(&dom["g"], big);
    let h = F::from_abs(&dom["h"], big);
    let d = D::new(n).ok_or_else(|| format!("domain of size {n} could not be constructed"))?;
    if d.size() != n {
        // a general domain prefers the radix-2 subgroup: it cannot be asked for this mixed size
        if std::any::type_name::<D>().contains("General") { return Err("skip".into()); }
        return Err(format!("asked for an admissible size {n}, got {}", d.size()));
    }
    if d.group_gen() != g { return Err("group generator differs from the power of the configured root".to_string()); }
    if d.group_gen_inv() * g != F::one() { return Err("group_gen_inv is not the inverse".into()); }
    let d = if h.is_one() { d } else { d.get_coset(h).ok_or("get_coset failed")? };
    if d.coset_offset() != h { return Err("coset offset not stored".into()); }
    Ok(d)
}

type Out = Result<(Vec<Value>, Value), String>;

/// Execute one event in every representation mix / API variant; returns (name, regs abstract, ret).
pub fn exec_event<F: PF>(ev: &Value, pre: &[Value], big: bool) -> Vec<(String, Out)> {
    let op = ev["op"].as_str().expect("op");
    let mut out: Vec<(String, Out)> = Vec::new();
    let small_subgroup = F::SMALL_SUBGROUP_BASE.is_some();
    macro_rules! run { ($name:expr, $body:expr) => {{ let r: Out = guarded(|| $body).and_then(|x| x); out.push(($name.to_string(), r)); }}; }
    // helper: result registers where register d is replaced
    let with = |d: usize, v: Value| -> Vec<Value> { let mut r = pre.to_vec(); r[d] = v; r };
    match op {
        "from_coeffs" => {
            let d = idx(ev, "d");
            let c = coeffs_from::<F>(&ev["c"], big);
            run!("dense_from_coefficients_vec", { let p = DensePolynomial::from_coefficients_vec(c.clone()); Ok((with(d, dense_abs(&p, big)?), Value::Null)) });
            run!("dense_from_coefficients_slice", { let p = DensePolynomial::from_coefficients_slice(&c); Ok((with(d, dense_abs(&p, big)?), Value::Null)) });
        }
        "from_terms" => {
            let d = idx(ev, "d");
            let t: Vec<(usize, F)> = ev["t"].as_array().unwrap().iter().map(|x| (x[0].as_u64().unwrap() as usize, F::from_abs(&x[1], big))).collect();
            run!("sparse_from_coefficients_vec", { let p = SparsePolynomial::from_coefficients_vec(t.clone()); Ok((with(d, sparse_abs(&p, big)?), Value::Null)) });
            run!("sparse_from_coefficients_slice", { let p = SparsePolynomial::from_coefficients_slice(&t); Ok((with(d, sparse_abs(&p, big)?), Value::Null)) });
            run!("sparse_into_dense", { let p: DensePolynomial<F> = SparsePolynomial::from_coefficients_vec(t.clone()).into(); Ok((with(d, dense_abs(&p, big)?), Value::Null)) });
        }
        "add" | "sub" => {
            let (d, s) = (idx(ev, "d"), idx(ev, "s"));
            let add = op == "add";
            let (a, b) = (dense_from::<F>(&pre[d], big), dense_from::<F>(&pre[s], big));
            let (sa, sb) = (sparse_from::<F>(&pre[d], big), sparse_from::<F>(&pre[s], big));
            run!("dense_dense_ref", { let r = if add { &a + &b } else { &a - &b }; Ok((with(d, dense_abs(&r, big)?), Value::Null)) });
            run!("dense_dense_val", { let r = if add { a.clone() + b.clone() } else { a.clone() - b.clone() }; Ok((with(d, dense_abs(&r, big)?), Value::Null)) });
            run!("dense_dense_assign", { let mut r = a.clone(); if add { r += &b } else { r -= &b }; Ok((with(d, dense_abs(&r, big)?), Value::Null)) });
            run!("dense_sparse_ref", { let r = if add { &a + &sb } else { &a - &sb }; Ok((with(d, dense_abs(&r, big)?), Value::Null)) });
            run!("dense_sparse_assign", { let mut r = a.clone(); if add { r += &sb } else { r -= &sb }; Ok((with(d, dense_abs(&r, big)?), Value::Null)) });
            if add {
                run!("sparse_sparse_ref", { let r = &sa + &sb; Ok((with(d, sparse_abs(&r, big)?), Value::Null)) });
                run!("sparse_sparse_val", { let r = sa.clone() + sb.clone(); Ok((with(d, sparse_abs(&r, big)?), Value::Null)) });
                run!("sparse_sparse_assign", { let mut r = sa.clone(); r += &sb; Ok((with(d, sparse_abs(&r, big)?), Value::Null)) });
                run!("dense_add_assign_scaled_one", { let mut r = a.clone(); r += (F::one(), &b); Ok((with(d, dense_abs(&r, big)?), Value::Null)) });
            } else {
                run!("sparse_sparse_sub_assign", { let mut r = sa.clone(); r -= &sb; Ok((with(d, sparse_abs(&r, big)?), Value::Null)) });
                run!("dense_add_neg", { let r = &a + &(-b.clone()); Ok((with(d, dense_abs(&r, big)?), Value::Null)) });
            }
        }
        "mul" => {
            let (d, s) = (idx(ev, "d"), idx(ev, "s"));
            let (a, b) = (dense_from::<F>(&pre[d], big), dense_from::<F>(&pre[s], big));
            let (sa, sb) = (sparse_from::<F>(&pre[d], big), sparse_from::<F>(&pre[s], big));
            run!("dense_naive_mul", { let r = a.naive_mul(&b); Ok((with(d, dense_abs(&r, big)?), Value::Null)) });
            // the FFT-based product documents a panic when the field has no domain large enough
            let need = (a.coeffs.len() + b.coeffs.len()).saturating_sub(1);
            if GeneralEvaluationDomain::<F>::compute_size_of_domain(need).is_some() {
                run!("dense_fft_mul_ref", { let r = &a * &b; Ok((with(d, dense_abs(&r, big)?), Value::Null)) });
                run!("dense_fft_mul_val", { let r = a.clone() * b.clone(); Ok((with(d, dense_abs(&r, big)?), Value::Null)) });
            }
            run!("sparse_mul", { let r = sa.mul(&sb); Ok((with(d, sparse_abs(&r, big)?), Value::Null)) });
        }
        "div" => {
            let (d, s) = (idx(ev, "d"), idx(ev, "s"));
            let (a, b) = (dense_from::<F>(&pre[d], big), dense_from::<F>(&pre[s], big));
            let (sa, sb) = (sparse_from::<F>(&pre[d], big), sparse_from::<F>(&pre[s], big));
            macro_rules! qr { ($name:expr, $x:expr, $y:expr) => { run!($name, {
                let (q, r) = DenseOrSparsePolynomial::from($x).divide_with_q_and_r(&DenseOrSparsePolynomial::from($y)).ok_or("divide_with_q_and_r returned None")?;
                Ok((with(d, dense_abs(&q, big)?), dense_abs(&r, big)?)) }) } }
            qr!("q_r_dense_dense", &a, &b); qr!("q_r_dense_sparse", &a, &sb); qr!("q_r_sparse_dense", &sa, &b); qr!("q_r_sparse_sparse", &sa, &sb);
            run!("div_operator", { let q = &a / &b; Ok((with(d, dense_abs(&q, big)?), Value::Null)) });
        }
        "neg" => {
            let d = idx(ev, "d");
            let a = dense_from::<F>(&pre[d], big); let sa = sparse_from::<F>(&pre[d], big);
            run!("dense_neg", { let r = -a.clone(); Ok((with(d, dense_abs(&r, big)?), Value::Null)) });
            run!("sparse_neg", { let r = -sa.clone(); Ok((with(d, sparse_abs(&r, big)?), Value::Null)) });
        }
        "scale" => {
            let d = idx(ev, "d"); let f = F::from_abs(&ev["f"], big);
            let a = dense_from::<F>(&pre[d], big); let sa = sparse_from::<F>(&pre[d], big);
            run!("dense_mul_elem_ref", { let r = &a * f; Ok((with(d, dense_abs(&r, big)?), Value::Null)) });
            run!("dense_mul_elem_val", { let r = a.clone() * f; Ok((with(d, dense_abs(&r, big)?), Value::Null)) });
            run!("sparse_mul_elem", { let r = &sa * f; Ok((with(d, sparse_abs(&r, big)?), Value::Null)) });
        }
        "add_scaled" => {
            let (d, s) = (idx(ev, "d"), idx(ev, "s")); let f = F::from_abs(&ev["f"], big);
            let (a, b) = (dense_from::<F>(&pre[d], big), dense_from::<F>(&pre[s], big));
            let (sa, sb) = (sparse_from::<F>(&pre[d], big), sparse_from::<F>(&pre[s], big));
            run!("dense_add_assign_scaled", { let mut r = a.clone(); r += (f, &b); Ok((with(d, dense_abs(&r, big)?), Value::Null)) });
            run!("sparse_add_assign_scaled", { let mut r = sa.clone(); r += (f, &sb); Ok((with(d, sparse_abs(&r, big)?), Value::Null)) });
        }
        "evaluate" => {
            let d = idx(ev, "d"); let x = F::from_abs(&ev["x"], big);
            let a = dense_from::<F>(&pre[d], big); let sa = sparse_from::<F>(&pre[d], big);
            run!("dense_evaluate", Ok((pre.to_vec(), a.evaluate(&x).to_abs(big)?)));
            run!("sparse_evaluate", Ok((pre.to_vec(), sa.evaluate(&x).to_abs(big)?)));
        }
        "degree" => {
            let d = idx(ev, "d");
            let a = dense_from::<F>(&pre[d], big); let sa = sparse_from::<F>(&pre[d], big);
            run!("dense_degree", Ok((pre.to_vec(), json!(a.degree()))));
            run!("sparse_degree", Ok((pre.to_vec(), json!(sa.degree()))));
            run!("dense_or_sparse_degree", Ok((pre.to_vec(), json!(DenseOrSparsePolynomial::from(&a).degree()))));
        }
        "is_zero" => {
            use ark_ff::Zero;
            let d = idx(ev, "d");
            let a = dense_from::<F>(&pre[d], big); let sa = sparse_from::<F>(&pre[d], big);
            run!("dense_is_zero", Ok((pre.to_vec(), json!(a.is_zero()))));
            run!("sparse_is_zero", Ok((pre.to_vec(), json!(sa.is_zero()))));
            run!("dense_or_sparse_is_zero", Ok((pre.to_vec(), json!(DenseOrSparsePolynomial::from(&sa).is_zero()))));
        }
        "eq" => {
            let (d, s) = (idx(ev, "d"), idx(ev, "s"));
            let (a, b) = (dense_from::<F>(&pre[d], big), dense_from::<F>(&pre[s], big));
            let (sa, sb) = (sparse_from::<F>(&pre[d], big), sparse_from::<F>(&pre[s], big));
            run!("dense_eq", Ok((pre.to_vec(), json!(a == b))));
            run!("sparse_eq", Ok((pre.to_vec(), json!(sa == sb))));
            run!("dense_eq_after_arith", { let z = &(&a + &b) - &b; Ok((pre.to_vec(), json!((z == a) && (a == b) == (dense_abs(&a, big)? == dense_abs(&b, big)?) && (a == b)))) });
        }
        "coeffs" => {
            let d = idx(ev, "d");
            let sa = sparse_from::<F>(&pre[d], big);
            run!("sparse_into_dense", { let r: DensePolynomial<F> = sa.clone().into(); Ok((pre.to_vec(), dense_abs(&r, big)?)) });
            run!("dense_or_sparse_into_dense", { let r: DensePolynomial<F> = DenseOrSparsePolynomial::from(sa.clone()).into(); Ok((pre.to_vec(), dense_abs(&r, big)?)) });
        }
        "terms" => {
            let d = idx(ev, "d");
            let a = dense_from::<F>(&pre[d], big);
            run!("dense_into_sparse", { let r: SparsePolynomial<F> = a.clone().into(); sparse_abs(&r, big)?;
                let t: &[(usize, F)] = &r; Ok((pre.to_vec(), Value::Array(t.iter().map(|(k, c)| json!([k, c.to_abs(big).unwrap()])).collect()))) });
        }
        "evaluate_over_domain" | "mul_by_vanishing_poly" | "divide_by_vanishing_poly" | "interpolate" => {
            let d = idx(ev, "d");
            let n = ev["dom"]["n"].as_u64().unwrap() as usize;
            macro_rules! per_domain { ($kind:literal, $D:ty) => {{
                let a = dense_from::<F>(&pre[d], big); let sa = sparse_from::<F>(&pre[d], big);
                match op {
                    "evaluate_over_domain" => {
                        run!(concat!($kind, "_dense_by_ref"), { let dm: $D = make_domain::<F, $D>(&ev["dom"], big)?; let e = a.evaluate_over_domain_by_ref(dm); Ok((pre.to_vec(), vec_abs(&e.evals, big)?)) });
                        run!(concat!($kind, "_dense_by_val"), { let dm: $D = make_domain::<F, $D>(&ev["dom"], big)?; let e = a.clone().evaluate_over_domain(dm); Ok((pre.to_vec(), vec_abs(&e.evals, big)?)) });
                        run!(concat!($kind, "_sparse_by_ref"), { let dm: $D = make_domain::<F, $D>(&ev["dom"], big)?; let e = sa.evaluate_over_domain_by_ref(dm); Ok((pre.to_vec(), vec_abs(&e.evals, big)?)) });
                        run!(concat!($kind, "_sparse_by_val"), { let dm: $D = make_domain::<F, $D>(&ev["dom"], big)?; let e = sa.clone().evaluate_over_domain(dm); Ok((pre.to_vec(), vec_abs(&e.evals, big)?)) });
                        run!(concat!($kind, "_dense_or_sparse"), { let dm: $D = make_domain::<F, $D>(&ev["dom"], big)?; let e = DenseOrSparsePolynomial::evaluate_over_domain(&a, dm); Ok((pre.to_vec(), vec_abs(&e.evals, big)?)) });
                        if a.coeffs.len() <= n {
                            run!(concat!($kind, "_fft"), { let dm: $D = make_domain::<F, $D>(&ev["dom"], big)?; Ok((pre.to_vec(), vec_abs(&dm.fft(&a.coeffs), big)?)) });
                        }
                    }
                    "mul_by_vanishing_poly" => run!(concat!($kind, "_mul_by_vanishing_poly"), { let dm: $D = make_domain::<F, $D>(&ev["dom"], big)?; let r = a.mul_by_vanishing_poly(dm); Ok((with(d, dense_abs(&r, big)?), Value::Null)) }),
                    "divide_by_vanishing_poly" => run!(concat!($kind, "_divide_by_vanishing_poly"), { let dm: $D = make_domain::<F, $D>(&ev["dom"], big)?; let (q, r) = a.divide_by_vanishing_poly(dm); Ok((with(d, dense_abs(&q, big)?), dense_abs(&r, big)?)) }),
                    _ => {
                        let v = coeffs_from::<F>(&ev["v"], big);
                        run!(concat!($kind, "_interpolate"), { let dm: $D = make_domain::<F, $D>(&ev["dom"], big)?; let r = Evaluations::from_vec_and_domain(v.clone(), dm).interpolate(); Ok((with(d, dense_abs(&r, big)?), Value::Null)) });
                        run!(concat!($kind, "_interpolate_by_ref"), { let dm: $D = make_domain::<F, $D>(&ev["dom"], big)?; let r = Evaluations::from_vec_and_domain(v.clone(), dm).interpolate_by_ref(); Ok((with(d, dense_abs(&r, big)?), Value::Null)) });
                        run!(concat!($kind, "_ifft"), { let dm: $D = make_domain::<F, $D>(&ev["dom"], big)?; let r = DensePolynomial::from_coefficients_vec(dm.ifft(&v)); Ok((with(d, dense_abs(&r, big)?), Value::Null)) });
                    }
                }
            }}; }
            if n.is_power_of_two() { per_domain!("radix2", Radix2EvaluationDomain<F>); }
            if small_subgroup { per_domain!("mixed", MixedRadixEvaluationDomain<F>); }
            per_domain!("general", GeneralEvaluationDomain<F>);
        }
        "new_domain" => {
            let m = ev["m"].as_u64().unwrap() as usize;
            let kind = ev["kind"].as_str().unwrap();
            macro_rules! nd { ($D:ty) => { run!(format!("{kind}_new"), { Ok((pre.to_vec(), match <$D>::new(m) {
                None => json!("none"),
                Some(dm) => { if <$D>::compute_size_of_domain(m) != Some(dm.size()) { return Err("compute_size_of_domain disagrees with new".into()); }
                    if dm.log_size_of_group() as usize != (dm.size() as f64).log2().ceil() as usize && dm.size().is_power_of_two() { return Err("log_size_of_group wrong".into()); }
                    json!({"n": dm.size(), "g": dm.group_gen().to_abs(big)?, "h": dm.coset_offset().to_abs(big)?}) } })) }) } }
            match kind { "radix2" => nd!(Radix2EvaluationDomain<F>), "mixed" => { if small_subgroup { nd!(MixedRadixEvaluationDomain<F>) } } _ => nd!(GeneralEvaluationDomain<F>) }
        }
        "element" | "elements" | "fft" | "ifft" | "vanishing_eval" | "vanishing_poly" | "lagrange_all" | "size_inv" | "gen_inv" => {
            let n = ev["dom"]["n"].as_u64().unwrap() as usize;
            let i = ev["i"].as_u64().unwrap_or(0) as usize;
            macro_rules! per_domain { ($kind:literal, $D:ty) => {{
                match op {
                    "element" => run!(concat!($kind, "_element"), { let dm: $D = make_domain::<F, $D>(&ev["dom"], big)?; Ok((pre.to_vec(), dm.element(i).to_abs(big)?)) }),
                    "elements" => run!(concat!($kind, "_elements"), { let dm: $D = make_domain::<F, $D>(&ev["dom"], big)?; let v: Vec<F> = dm.elements().collect(); Ok((pre.to_vec(), vec_abs(&v, big)?)) }),
                    "fft" => { let v = coeffs_from::<F>(&ev["v"], big);
                        run!(concat!($kind, "_fft"), { let dm: $D = make_domain::<F, $D>(&ev["dom"], big)?; Ok((pre.to_vec(), vec_abs(&dm.fft(&v), big)?)) });
                        run!(concat!($kind, "_fft_in_place"), { let dm: $D = make_domain::<F, $D>(&ev["dom"], big)?; let mut w = v.clone(); dm.fft_in_place(&mut w); Ok((pre.to_vec(), vec_abs(&w, big)?)) }); }
                    "ifft" => { let v = coeffs_from::<F>(&ev["v"], big);
                        run!(concat!($kind, "_ifft"), { let dm: $D = make_domain::<F, $D>(&ev["dom"], big)?; Ok((pre.to_vec(), vec_abs(&dm.ifft(&v), big)?)) });
                        run!(concat!($kind, "_ifft_in_place"), { let dm: $D = make_domain::<F, $D>(&ev["dom"], big)?; let mut w = v.clone(); dm.ifft_in_place(&mut w); Ok((pre.to_vec(), vec_abs(&w, big)?)) }); }
                    "vanishing_eval" => { let tau = F::from_abs(&ev["tau"], big);
                        run!(concat!($kind, "_evaluate_vanishing_polynomial"), { let dm: $D = make_domain::<F, $D>(&ev["dom"], big)?; Ok((pre.to_vec(), dm.evaluate_vanishing_polynomial(tau).to_abs(big)?)) }); }
                    "vanishing_poly" => run!(concat!($kind, "_vanishing_polynomial"), { let dm: $D = make_domain::<F, $D>(&ev["dom"], big)?; let d: DensePolynomial<F> = dm.vanishing_polynomial().into(); Ok((pre.to_vec(), dense_abs(&d, big)?)) }),
                    "lagrange_all" => { let tau = F::from_abs(&ev["tau"], big);
                        run!(concat!($kind, "_evaluate_all_lagrange_coefficients"), { let dm: $D = make_domain::<F, $D>(&ev["dom"], big)?; Ok((pre.to_vec(), vec_abs(&dm.evaluate_all_lagrange_coefficients(tau), big)?)) }); }
                    "size_inv" => run!(concat!($kind, "_size_inv"), { let dm: $D = make_domain::<F, $D>(&ev["dom"], big)?; if dm.size_as_field_element() * dm.size_inv() != F::one() { return Err("size_as_field_element * size_inv != 1".into()); } Ok((pre.to_vec(), dm.size_inv().to_abs(big)?)) }),
                    _ => run!(concat!($kind, "_group_gen_inv"), { let dm: $D = make_domain::<F, $D>(&ev["dom"], big)?; Ok((pre.to_vec(), dm.group_gen_inv().to_abs(big)?)) }),
                }
            }}; }
            if n.is_power_of_two() { per_domain!("radix2", Radix2EvaluationDomain<F>); }
            if small_subgroup { per_domain!("mixed", MixedRadixEvaluationDomain<F>); }
            per_domain!("general", GeneralEvaluationDomain<F>);
        }
        _ => panic!("unknown poly event {op}"),
    }
    out
}

pub fn replay<F: PF>(trans: impl Iterator<Item = Value>, big: bool) -> Report {
    let mut rep = Report::default();
    for t in trans {
        rep.transitions += 1;
        let ev = &t["ev"];
        let op = ev["op"].as_str().expect("op").to_string();
        rep.op(&op);
        let pre = t["pre"].as_array().expect("pre").clone();
        let post = t["post"].as_array().expect("post").clone();
        let want_ret = ev.get("ret").cloned().unwrap_or(Value::Null);
        if rep.transitions % 499 == 1 { rep.sample(&t); }
        intent(&t);
        let mut ok = true;
        for (name, res) in exec_event::<F>(ev, &pre, big) {
            rep.evaluations += 1;
            match res {
                Ok((abs, ret)) => {
                    let ret_ok = ret.is_null() || want_ret.is_null() || ret == want_ret;
                    if abs != post || !ret_ok { ok = false; rep.mismatch(json!({"transition": t, "variant": name, "got_post": abs, "got_ret": ret})); }
                }
                Err(e) if e == "skip" => {}
                Err(e) => { ok = false; rep.mismatch(json!({"transition": t, "variant": name, "error": e})); }
            }
        }
        if ok && (t["pre"] != t["post"] || !(want_ret.is_null() || want_ret == json!(false) || want_ret == json!(0) || want_ret == json!([]))) {
            rep.nontrivial.insert(format!("{}|{}", t["pre"], ev));
        }
    }
    rep
}

// ---------------------------------------------------------------------------------------
// Conformance B at full size: calls of PolyMachine actions on large polynomials and domains,
// logged with operands and results for validation by spec/trace/Trace_Poly.tla.
pub fn record_big<F: PF>(cfg: &str, seed: u64, n: usize, maxlog: u32, out: &mut dyn std::io::Write) -> Report {
    use num_bigint::BigUint;
    let mut rep = Report::default();
    let mut rng = Rng(seed ^ 0x90_17);
    let p = F::modulus();
    let felem = |rng: &mut Rng| -> Value { match rng.below(10) { 0 => num_to_json(&BigUint::from(0u32), true), 1 => num_to_json(&BigUint::from(1u32), true), 2 => num_to_json(&(&p - 1u32), true), _ => num_to_json(&rng.biguint_below(&p), true) } };
    let nonzero = |rng: &mut Rng| -> Value { num_to_json(&(rng.biguint_below(&(&p - 1u32)) + 1u32), true) };
    // a polynomial with `len` coefficients (canonical: last one non-zero), several shapes
    let poly = |rng: &mut Rng, len: usize| -> Value {
        if len == 0 { return json!([]); }
        let style = rng.below(5);
        let mut v: Vec<Value> = (0..len).map(|i| match style { 0 => num_to_json(&BigUint::from(1u32), true), 1 => if i == 0 || i + 1 == len { num_to_json(&BigUint::from(1u32), true) } else { json!([]) },
                                                              2 => if rng.below(4) == 0 { felem(rng) } else { json!([]) }, _ => felem(rng) }).collect();
        v[len - 1] = nonzero(rng);
        Value::Array(v)
    };
    let sizes: Vec<usize> = { let mut s = vec![0usize, 1, 2, 3, 5, 15, 16, 17, 31, 33, 63, 64, 65, 100, 127, 129, 255, 257, 300, 511, 513, 1000, 1023, 1025, 2047, 2049, 3000, 4095, 4097, 8191];
                              s.retain(|&x| x <= (1usize << maxlog)); s };
    let (sb, sa) = (F::SMALL_SUBGROUP_BASE.unwrap_or(0), F::SMALL_SUBGROUP_BASE_ADICITY.unwrap_or(0));
    writeln!(out, "{}", json!({"op": "reset", "cfg": cfg, "seed": seed, "p": num_to_json(&p, true), "two_adicity": F::TWO_ADICITY, "small_base": sb, "small_adicity": sa})).unwrap();
    let kinds: Vec<&str> = if sb != 0 { vec!["radix2", "mixed", "general", "mixed"] } else { vec!["radix2", "general"] };
    let mut step = 0;
    while step < n {
        step += 1;
        let z = nonzero(&mut rng);
        // a domain for this step: ask the real code, through the new_domain action
        let kind = *rng.pick(&kinds);
        let m: usize = match rng.below(8) { 0 => rng.below(9) as usize, 1 => 1usize << rng.below(maxlog as u64 + 1), 2 => (1usize << rng.below(maxlog as u64 + 1)) + 1,
                                            3 => (1usize << (maxlog - 1)) + 1, _ => *rng.pick(&sizes) };
        let nd = json!({"op": "new_domain", "kind": kind, "m": m});
        let mut got: Vec<(String, Out)> = exec_event::<F>(&nd, &[], true);
        if got.is_empty() { continue }
        let (via, res) = got.swap_remove(rng.below(got.len() as u64) as usize);
        let mut line = nd.clone(); line["via"] = json!(via); line["z"] = z.clone();
        rep.op("new_domain"); rep.evaluations += 1;
        let dom = match res { Ok((_, r)) => { line["ret"] = if r.is_object() { r.clone() } else { json!({"n": 0}) }; r } Err(e) => { line["panic"] = json!(e); Value::Null } };
        writeln!(out, "{}", line).unwrap();
        if !dom.is_object() { continue }
        let dn = dom["n"].as_u64().unwrap() as usize;
        let mut dom = dom;
        if rng.below(3) == 0 { dom["h"] = nonzero(&mut rng); }
        // the operation
        let la = match rng.below(6) { 0 => dn, 1 => dn / 4, 2 => dn / 4 + 1, 3 => dn.saturating_sub(1), 4 => *rng.pick(&sizes), _ => rng.below(dn as u64 + 1) as usize };
        let lb = match rng.below(5) { 0 => 0, 1 => 1, 2 => rng.below(20) as usize, 3 => *rng.pick(&sizes), _ => la };
        let pre = vec![poly(&mut rng, la.min(1 << maxlog)), poly(&mut rng, lb.min(1 << maxlog))];
        let vecn = |rng: &mut Rng, len: usize| -> Value { Value::Array((0..len).map(|_| felem(rng)).collect()) };
        let c = rng.below(100);
        let flen = match rng.below(4) { 0 => dn, 1 => dn / 4, 2 => dn / 4 + 1, _ => rng.below(dn as u64 + 1) as usize };
        let ev: Value =
            if c < 14 { json!({"op": "fft", "dom": dom, "i": 0, "tau": [], "v": vecn(&mut rng, flen)}) }
            else if c < 26 { json!({"op": "ifft", "dom": dom, "i": 0, "tau": [], "v": vecn(&mut rng, dn)}) }
            else if c < 34 { json!({"op": "evaluate_over_domain", "d": 1, "dom": dom}) }
            else if c < 42 { json!({"op": "interpolate", "d": 1, "dom": dom, "v": vecn(&mut rng, dn)}) }
            else if c < 47 { let tau = if rng.below(4) == 0 { F::from_abs(&dom["h"], true) * F::from_abs(&dom["g"], true).pow([rng.below(dn as u64)]) } else { F::from_abs(&felem(&mut rng), true) };
                             json!({"op": "lagrange_all", "dom": dom, "i": 0, "tau": tau.to_abs(true).unwrap(), "v": []}) }
            else if c < 50 { json!({"op": "elements", "dom": dom, "i": 0, "tau": [], "v": []}) }
            else if c < 53 { json!({"op": "element", "dom": dom, "i": rng.below(dn as u64 + 2), "tau": [], "v": []}) }
            else if c < 56 { json!({"op": *rng.pick(&["vanishing_eval", "vanishing_poly", "size_inv", "gen_inv"]), "dom": dom, "i": 0, "tau": felem(&mut rng), "v": []}) }
            else if c < 62 { json!({"op": "mul_by_vanishing_poly", "d": 1, "dom": dom}) }
            else if c < 68 { json!({"op": "divide_by_vanishing_poly", "d": 1, "dom": dom}) }
            else if c < 78 { json!({"op": "mul", "d": 1, "s": 2}) }
            else if c < 84 { if pre[1].as_array().unwrap().is_empty() { continue } json!({"op": "div", "d": 1, "s": 2}) }
            else if c < 90 { json!({"op": "evaluate", "d": 1, "s": 1, "x": felem(&mut rng)}) }
            else if c < 94 { json!({"op": *rng.pick(&["add", "sub"]), "d": 1, "s": 2}) }
            else if c < 97 { json!({"op": "add_scaled", "d": 1, "s": 2, "f": felem(&mut rng)}) }
            else { json!({"op": *rng.pick(&["neg", "degree", "is_zero", "coeffs", "terms"]), "d": 1, "s": 1, "x": []}) };
        let op = ev["op"].as_str().unwrap().to_string();
        rep.op(&op);
        intent(&json!({"machine": "polybig", "cfg": cfg, "seed": seed, "step": step, "event": {"op": op, "dom_n": dn, "la": la, "lb": lb}}));
        let mut got: Vec<(String, Out)> = exec_event::<F>(&ev, &pre, true).into_iter().filter(|(_, r)| !matches!(r, Err(e) if e == "skip")).collect();
        if got.is_empty() { continue }
        // quotient-only forms of the division cannot be decided by a relation at one point: keep them for small operands only
        if op == "div" && la.min(lb) > 40 { got.retain(|(_, r)| matches!(r, Ok((_, ret)) if !ret.is_null()) || r.is_err()); if got.is_empty() { continue } }
        let (via, res) = got.swap_remove(rng.below(got.len() as u64) as usize);
        rep.evaluations += 1;
        let mut line = ev.clone();
        line["via"] = json!(via); line["z"] = z; line["pre"] = Value::Array(pre.clone());
        match res {
            Ok((post, ret)) => { line["post"] = Value::Array(post); if !ret.is_null() { line["ret"] = ret; } rep.nontrivial.insert(format!("{op}:{step}")); }
            Err(e) => { line["panic"] = json!(e); }
        }
        rep.sample(&json!({"op": op, "via": line["via"], "dom_n": dn, "la": la, "lb": lb}));
        writeln!(out, "{}", line).unwrap();
    }
    rep.transitions = n as u64;
    rep
}
