//! Driver for SerMachine: canonical (de)serialization of field elements and curve points.
use crate::curve::CurveDrv;
use crate::elem::Elem;
use crate::util::*;
use ark_ec::{short_weierstrass::SWFlags, twisted_edwards::TEFlags, AffineRepr, CurveGroup};
use ark_ff::Field;
use ark_serialize::{
    CanonicalDeserialize, CanonicalDeserializeWithFlags, CanonicalSerialize, CanonicalSerializeWithFlags, Compress, EmptyFlags, Validate,
};
use serde_json::{json, Value};

type Aff<D> = <<D as CurveDrv>::G as CurveGroup>::Affine;
type Out = Result<Value, String>;

fn sw_flag(mask: u64) -> SWFlags { match mask { 64 => SWFlags::PointAtInfinity, 128 => SWFlags::YIsNegative, _ => SWFlags::YIsPositive } }
fn te_flag(mask: u64) -> TEFlags { if mask == 128 { TEFlags::XIsNegative } else { TEFlags::XIsPositive } }
fn sw_name(f: SWFlags) -> &'static str { match f { SWFlags::PointAtInfinity => "inf", SWFlags::YIsNegative => "neg", SWFlags::YIsPositive => "pos" } }

pub fn exec_event<D: CurveDrv>(ev: &Value, big: bool) -> Vec<(String, Out)> {
    let op = ev["op"].as_str().expect("op");
    let mut out: Vec<(String, Out)> = Vec::new();
    macro_rules! run { ($name:expr, $body:expr) => {{ let r: Out = guarded(|| $body).and_then(|x| x); out.push(($name.to_string(), r)); }}; }
    match op {
        "ser_field" => {
            let a = D::B::from_abs(&ev["v"], big);
            let kind = ev["kind"].as_str().unwrap();
            let mask = ev["mask"].as_u64().unwrap();
            let want_size = ev["size"].as_u64().unwrap() as usize;
            let chk = move |bytes: Vec<u8>, size: usize| -> Out {
                if size != want_size { return Err(format!("advertised size {size}, specification says {want_size}")); }
                if bytes.len() != size { return Err(format!("wrote {} bytes but advertised {size}", bytes.len())); }
                Ok(bytes_json(&bytes)) };
            match kind {
                "none" => {
                    run!("serialize_compressed", { let mut b = vec![]; a.serialize_compressed(&mut b).map_err(|e| e.to_string())?; chk(b, a.compressed_size()) });
                    run!("serialize_uncompressed", { let mut b = vec![]; a.serialize_uncompressed(&mut b).map_err(|e| e.to_string())?; chk(b, a.uncompressed_size()) });
                    run!("serialize_with_mode", { let mut b = vec![]; a.serialize_with_mode(&mut b, Compress::Yes).map_err(|e| e.to_string())?; chk(b, a.serialized_size(Compress::Yes)) });
                    run!("serialize_with_empty_flags", { let mut b = vec![]; a.serialize_with_flags(&mut b, EmptyFlags).map_err(|e| e.to_string())?; chk(b, a.serialized_size_with_flags::<EmptyFlags>()) });
                }
                "sw" => run!("serialize_with_sw_flags", { let mut b = vec![]; a.serialize_with_flags(&mut b, sw_flag(mask)).map_err(|e| e.to_string())?; chk(b, a.serialized_size_with_flags::<SWFlags>()) }),
                _ => run!("serialize_with_te_flags", { let mut b = vec![]; a.serialize_with_flags(&mut b, te_flag(mask)).map_err(|e| e.to_string())?; chk(b, a.serialized_size_with_flags::<TEFlags>()) }),
            }
        }
        "deser_field" => {
            let bytes = json_bytes(&ev["bytes"]);
            let kind = ev["kind"].as_str().unwrap();
            macro_rules! de { ($name:expr, $call:expr, $flag:expr) => { run!($name, {
                let mut r: &[u8] = &bytes;
                let res = $call(&mut r);
                Ok(match res { Err(_) => json!("err"),
                    Ok((v, f)) => { let v: D::B = v; json!({"v": v.to_abs(big)?, "flag": $flag(f), "n": bytes.len() - r.len()}) } }) }) } }
            match kind {
                "none" => {
                    de!("deserialize_compressed", |r: &mut &[u8]| D::B::deserialize_compressed(r).map(|v| (v, ())), |_| "none");
                    de!("deserialize_uncompressed", |r: &mut &[u8]| D::B::deserialize_uncompressed(r).map(|v| (v, ())), |_| "none");
                    de!("deserialize_uncompressed_unchecked", |r: &mut &[u8]| D::B::deserialize_uncompressed_unchecked(r).map(|v| (v, ())), |_| "none");
                    de!("deserialize_with_empty_flags", |r: &mut &[u8]| D::B::deserialize_with_flags::<_, EmptyFlags>(r), |_| "none");
                }
                "sw" => de!("deserialize_with_sw_flags", |r: &mut &[u8]| D::B::deserialize_with_flags::<_, SWFlags>(r), sw_name),
                _ => de!("deserialize_with_te_flags", |r: &mut &[u8]| D::B::deserialize_with_flags::<_, TEFlags>(r), |f: TEFlags| if f.is_negative() { "neg" } else { "pos" }),
            }
        }
        "ser_point" => {
            let p: Aff<D> = D::aff(&ev["P"], big);
            let compressed = ev["compressed"].as_bool().unwrap();
            let c = if compressed { Compress::Yes } else { Compress::No };
            let want_size = ev["size"].as_u64().unwrap() as usize;
            let chk = move |bytes: Vec<u8>, size: usize| -> Out {
                if size != want_size { return Err(format!("advertised size {size}, specification says {want_size}")); }
                if bytes.len() != size { return Err(format!("wrote {} bytes but advertised {size}", bytes.len())); }
                Ok(bytes_json(&bytes)) };
            run!("affine_serialize_with_mode", { let mut b = vec![]; p.serialize_with_mode(&mut b, c).map_err(|e| e.to_string())?; chk(b, p.serialized_size(c)) });
            run!("affine_serialize_shorthand", { let mut b = vec![]; if compressed { p.serialize_compressed(&mut b) } else { p.serialize_uncompressed(&mut b) }.map_err(|e| e.to_string())?;
                                                 chk(b, if compressed { p.compressed_size() } else { p.uncompressed_size() }) });
            for (i, lam) in crate::curve::scalings::<D::B>(5).into_iter().enumerate() {
                let g = D::proj(&ev["P"], &lam, big);
                run!(format!("projective_serialize_{i}"), { let mut b = vec![]; g.serialize_with_mode(&mut b, c).map_err(|e| e.to_string())?; chk(b, g.serialized_size(c)) });
            }
            run!("exact_size_buffer", { let mut buf = vec![0u8; want_size]; let mut w: &mut [u8] = &mut buf; p.serialize_with_mode(&mut w, c).map_err(|e| format!("does not fit the advertised size: {e}"))?;
                                        if !w.is_empty() { return Err("wrote fewer bytes than advertised".into()); } Ok(bytes_json(&buf)) });
        }
        "deser_point" => {
            let bytes = json_bytes(&ev["bytes"]);
            let compressed = ev["compressed"].as_bool().unwrap();
            let validate = ev["validate"].as_bool().unwrap();
            let c = if compressed { Compress::Yes } else { Compress::No };
            let v = if validate { Validate::Yes } else { Validate::No };
            let size = if compressed { Aff::<D>::zero().compressed_size() } else { Aff::<D>::zero().uncompressed_size() };
            run!("affine_deserialize_with_mode", { let mut r: &[u8] = &bytes; Ok(match Aff::<D>::deserialize_with_mode(&mut r, c, v) {
                Err(_) => json!("err"),
                Ok(p) => { if bytes.len() - r.len() > size { return Err("read past the advertised size".into()); } json!({"P": D::aff_abs(&p, big)?}) } }) });
            run!("projective_deserialize_with_mode", { let mut r: &[u8] = &bytes; Ok(match D::G::deserialize_with_mode(&mut r, c, v) {
                Err(_) => json!("err"), Ok(g) => { let p: Aff<D> = g.into_affine(); json!({"P": D::aff_abs(&p, big)?}) } }) });
            run!("affine_deserialize_shorthand", { let r: &[u8] = &bytes; let res = match (compressed, validate) {
                    (true, true) => Aff::<D>::deserialize_compressed(r), (true, false) => Aff::<D>::deserialize_compressed_unchecked(r),
                    (false, true) => Aff::<D>::deserialize_uncompressed(r), (false, false) => Aff::<D>::deserialize_uncompressed_unchecked(r) };
                Ok(match res { Err(_) => json!("err"), Ok(p) => json!({"P": D::aff_abs(&p, big)?}) }) });
        }
        _ => panic!("unknown ser event {op}"),
    }
    out
}

pub fn replay<D: CurveDrv>(trans: impl Iterator<Item = Value>, big: bool) -> Report {
    let mut rep = Report::default();
    for t in trans {
        rep.transitions += 1;
        let ev = &t["ev"];
        let op = ev["op"].as_str().expect("op").to_string();
        rep.op(&op);
        let want = ev["ret"].clone();
        if rep.transitions % 4999 == 1 { rep.sample(&t); }
        intent(&t);
        let mut ok = true;
        for (name, res) in exec_event::<D>(ev, big) {
            rep.evaluations += 1;
            match res {
                Ok(ret) => if ret != want { ok = false; rep.mismatch(json!({"transition": t, "variant": name, "got_ret": ret})); },
                Err(e) => { ok = false; rep.mismatch(json!({"transition": t, "variant": name, "error": e})); }
            }
        }
        if ok && want != json!("err") { rep.nontrivial.insert(format!("{}", ev)); }
    }
    rep
}
