//! Driver for SerMachine: canonical (de)serialization of field elements and curve points.
use crate::curve::CurveDrv;
use crate::elem::Elem;
use crate::util::*;
use ark_ec::{short_weierstrass::SWFlags, twisted_edwards::TEFlags, AffineRepr, CurveGroup};
use ark_ff::Field;
use ark_serialize::{
    CanonicalDeserialize, CanonicalDeserializeWithFlags, CanonicalSerialize, CanonicalSerializeWithFlags, Compress, EmptyFlags, Validate,
};
use serde_json::{json, Value};

type Aff<D> = <<D as CurveDrv>::G as CurveGroup>::Affine;
type Out = Result<Value, String>;

fn sw_flag(mask: u64) -> SWFlags { match mask { 64 => SWFlags::PointAtInfinity, 128 => SWFlags::YIsNegative, _ => SWFlags::YIsPositive } }
fn te_flag(mask: u64) -> TEFlags { if mask == 128 { TEFlags::XIsNegative } else { TEFlags::XIsPositive } }
fn sw_name(f: SWFlags) -> &'static str { match f { SWFlags::PointAtInfinity => "inf", SWFlags::YIsNegative => "neg", SWFlags::YIsPositive => "pos" } }

pub fn exec_event<D: CurveDrv>(ev: &Value, big: bool) -> Vec<(String, Out)> {
    let op = ev["op"].as_str().expect("op");
    let mut out: Vec<(String, Out)> = Vec::new();
    macro_rules! run { ($name:expr, $body:expr) => {{ let r: Out = guarded(|| $body).and_then(|x| x); out.push(($name.to_string(), r)); }}; }
    match op {
        "ser_field" => {
            let a = D::B::from_abs(&ev["v"], big);
            let kind = ev["kind"].as_str().unwrap();
            let mask = ev["mask"].as_u64().unwrap();
            let want_size = ev["size"].as_u64().unwrap() as usize;
            let chk = move |bytes: Vec<u8>, size: usize| -> Out {
                if size != want_size { return Err(format!("advertised size {size}, specification says {want_size}")); }
                if bytes.len() != size { return Err(format!("wrote {} bytes but advertised {size}", bytes.len())); }
                Ok(bytes_json(&bytes)) };
            match kind {
                "none" => {
                    run!("serialize_compressed", { let mut b = vec![]; a.serialize_compressed(&mut b).map_err(|e| e.to_string())?; chk(b, a.compressed_size()) });
                    run!("serialize_uncompressed", { let mut b = vec![]; a.serialize_uncompressed(&mut b).map_err(|e| e.to_string())?; chk(b, a.uncompressed_size()) });
                    run!("serialize_with_mode", { let mut b = vec![]; a.serialize_with_mode(&mut b, Compress::Yes).map_err(|e| e.to_string())?; chk(b, a.serialized_size(Compress::Yes)) });
                    run!("serialize_with_empty_flags", { let mut b = vec![]; a.serialize_with_flags(&mut b, EmptyFlags).map_err(|e| e.to_string())?; chk(b, a.serialized_size_with_flags::<EmptyFlags>()) });
                }
                "sw" => run!("serialize_with_sw_flags", { let mut b = vec![]; a.serialize_with_flags(&mut b, sw_flag(mask)).map_err(|e| e.to_string())?; chk(b, a.serialized_size_with_flags::<SWFlags>()) }),
                _ => run!("serialize_with_te_flags", { let mut b = vec![]; a.serialize_with_flags(&mut b, te_flag(mask)).map_err(|e| e.to_string())?; chk(b, a.serialized_size_with_flags::<TEFlags>()) }),
            }
        }
        "deser_field" => {
            let bytes = json_bytes(&ev["bytes"]);
            let kind = ev["kind"].as_str().unwrap();
            macro_rules! de { ($name:expr, $call:expr, $flag:expr) => { run!($name, {
                let mut r: &[u8] = &bytes;
                let res = $call(&mut r);
                Ok(match res { Err(_) => json!("err"),
                    Ok((v, f)) => { let v: D::B = v; json!({"v": v.to_abs(big)?, "flag": $flag(f), "n": bytes.len() - r.len()}) } }) }) } }
            match kind {
                "none" => {
                    de!("deserialize_compressed", |r: &mut &[u8]| D::B::deserialize_compressed(r).map(|v| (v, ())), |_| "none");
                    de!("deserialize_uncompressed", |r: &mut &[u8]| D::B::deserialize_uncompressed(r).map(|v| (v, ())), |_| "none");
                    de!("deserialize_uncompressed_unchecked", |r: &mut &[u8]| D::B::deserialize_uncompressed_unchecked(r).map(|v| (v, ())), |_| "none");
                    de!("deserialize_with_empty_flags", |r: &mut &[u8]| D::B::deserialize_with_flags::<_, EmptyFlags>(r), |_| "none");
                }
                "sw" => de!("deserialize_with_sw_flags", |r: &mut &[u8]| D::B::deserialize_with_flags::<_, SWFlags>(r), sw_name),
                _ => de!("deserialize_with_te_flags", |r: &mut &[u8]| D::B::deserialize_with_flags::<_, TEFlags>(r), |f: TEFlags| if f.is_negative() { "neg" } else { "pos" }),
            }
        }
        "ser_point" => {
            let p: Aff<D> = D::aff(&ev["P"], big);
            let compressed = ev["compressed"].as_bool().unwrap();
            let c = if compressed { Compress::Yes } else { Compress::No };
            let want_size = ev["size"].as_u64().unwrap() as usize;
            let chk = move |bytes: Vec<u8>, size: usize| -> Out {
                if size != want_size { return Err(format!("advertised size {size}, specification says {want_size}")); }
                if bytes.len() != size { return Err(format!("wrote {} bytes but advertised {size}", bytes.len())); }
                Ok(bytes_json(&bytes)) };
            run!("affine_serialize_with_mode", { let mut b = vec![]; p.serialize_with_mode(&mut b, c).map_err(|e| e.to_string())?; chk(b, p.serialized_size(c)) });
            run!("affine_serialize_shorthand", { let mut b = vec![]; if compressed { p.serialize_compressed(&mut b) } else { p.serialize_uncompressed(&mut b) }.map_err(|e| e.to_string())?;
                                                 chk(b, if compressed { p.compressed_size() } else { p.uncompressed_size() }) });
            for (i, lam) in crate::curve::scalings::<D::B>(5).into_iter().enumerate() {
                let g = D::proj(&ev["P"], &lam, big);
                run!(format!("projective_serialize_{i}"), { let mut b = vec![]; g.serialize_with_mode(&mut b, c).map_err(|e| e.to_string())?; chk(b, g.serialized_size(c)) });
            }
            run!("exact_size_buffer", { let mut buf = vec![0u8; want_size]; let mut w: &mut [u8] = &mut buf; p.serialize_with_mode(&mut w, c).map_err(|e| format!("does not fit the advertised size: {e}"))?;
                                        if !w.is_empty() { return Err("wrote fewer bytes than advertised".into()); } Ok(bytes_json(&buf)) });
        }
        "deser_point" => {
            let bytes = json_bytes(&ev["bytes"]);
            let compressed = ev["compressed"].as_bool().unwrap();
            let validate = ev["validate"].as_bool().unwrap();
            let c = if compressed { Compress::Yes } else { Compress::No };
            let v = if validate { Validate::Yes } else { Validate::No };
            let size = if compressed { Aff::<D>::zero().compressed_size() } else { Aff::<D>::zero().uncompressed_size() };
            run!("affine_deserialize_with_mode", { let mut r: &[u8] = &bytes; Ok(match Aff::<D>::deserialize_with_mode(&mut r, c, v) {
                Err(_) => json!("err"),
                Ok(p) => { if bytes.len() - r.len() > size { return Err("read past the advertised size".into()); } json!({"P": D::aff_abs(&p, big)?}) } }) });
            run!("projective_deserialize_with_mode", { let mut r: &[u8] = &bytes; Ok(match D::G::deserialize_with_mode(&mut r, c, v) {
                Err(_) => json!("err"), Ok(g) => { let p: Aff<D> = g.into_affine(); json!({"P": D::aff_abs(&p, big)?}) } }) });
            run!("affine_deserialize_shorthand", { let r: &[u8] = &bytes; let res = match (compressed, validate) {
                    (true, true) => Aff::<D>::deserialize_compressed(r), (true, false) => Aff::<D>::deserialize_compressed_unchecked(r),
                    (false, true) => Aff::<D>::deserialize_uncompressed(r), (false, false) => Aff::<D>::deserialize_uncompressed_unchecked(r) };
                Ok(match res { Err(_) => json!("err"), Ok(p) => json!({"P": D::aff_abs(&p, big)?}) }) });
        }
        _ => panic!("unknown ser event {op}"),
    }
    out
}

pub fn replay<D: CurveDrv>(trans: impl Iterator<Item = Value>, big: bool) -> Report {
    let mut rep = Report::default();
    for t in trans {
        rep.transitions += 1;
        let ev = &t["ev"];
        let op = ev["op"].as_str().expect("op").to_string();
        rep.op(&op);
        let want = ev["ret"].clone();
        if rep.transitions % 4999 == 1 { rep.sample(&t); }
        intent(&t);
        let mut ok = true;
        for (name, res) in exec_event::<D>(ev, big) {
            rep.evaluations += 1;
            match res {
                Ok(ret) => if ret != want { ok = false; rep.mismatch(json!({"transition": t, "variant": name, "got_ret": ret})); },
                Err(e) => { ok = false; rep.mismatch(json!({"transition": t, "variant": name, "error": e})); }
            }
        }
        if ok && want != json!("err") { rep.nontrivial.insert(format!("{}", ev)); }
    }
    rep
}

// ---------------------------------------------------------------------------------------
// Conformance B at full size: calls of the real (de)serializers on shipped curves, validated by
// spec/trace/Trace_Ser.tla (library format, or the ZCash format of curves/bls12_381).

/// cube root in the field B (a = 0 curves: x = cbrt(y^2 - b) gives points with a chosen y); None when there is none or
/// the 3-Sylow subgroup is too large for the table-free search used here
fn cube_root<B: Elem>(c: &B) -> Option<B> {
    use num_bigint::BigUint;
    use num_traits::{One, Zero as _};
    if c.is_zero() { return Some(*c); }
    let deg: usize = B::shape().iter().product::<usize>().max(1);
    let q = B::modulus().pow(deg as u32);
    let qm1 = &q - BigUint::one();
    let three = BigUint::from(3u32);
    let pw = |x: &B, e: &BigUint| -> B { x.pow(e.to_u64_digits()) };
    if (&qm1 % &three) != BigUint::zero() {
        // every element is a cube: x = c^(3^-1 mod (q-1))
        let inv = three.modinv(&qm1)?;
        return Some(pw(c, &inv));
    }
    if !pw(c, &(&qm1 / &three)).is_one() { return None; }
    let (mut s, mut t) = (0u32, qm1.clone());
    while (&t % &three).is_zero() { t /= &three; s += 1; }
    if s > 8 { return None; }
    // generator of the 3-Sylow subgroup
    let mut g = None;
    for k in 2u64..200 { let cand = B::from(k); let gt = pw(&cand, &t); if !pw(&gt, &three.pow(s - 1)).is_one() { g = Some(gt); break; } }
    let g = g?;
    let u = three.modinv(&t)?;                       // 3u = 1 + m t
    let x0 = pw(c, &u);
    let e = x0 * x0 * x0 * c.inverse()?;             // in the 3-Sylow subgroup, a cube there
    // find j with g^(3j) = e^-1, then x = x0 g^j
    let einv = e.inverse()?;
    let g3 = g * g * g;
    let mut acc = B::one(); let mut gj = B::one();
    for _ in 0..3u64.pow(s) { if acc == einv { let x = x0 * gj; return if x * x * x == *c { Some(x) } else { None }; } acc *= g3; gj *= g; }
    None
}

pub fn record_big<D: CurveDrv>(cfg: &str, seed: u64, n: usize, out: &mut dyn std::io::Write) -> Report {
    use ark_ec::{CurveConfig, PrimeGroup};
    use ark_ff::{PrimeField, Zero, One};
    use num_bigint::BigUint;
    let mut rep = Report::default();
    let mut rng = Rng(seed ^ 0x5E12);
    let zcash = cfg == "c_bls12_381_g1" || cfg == "c_bls12_381_g2";
    let p = D::B::modulus();
    let r_mod: BigUint = D::S::MODULUS.into();
    let h = limbs_to_biguint(<<D::G as CurveGroup>::Config as CurveConfig>::COFACTOR);
    let mut hdr = D::params(true);
    hdr["op"] = json!("reset"); hdr["cfg"] = json!(cfg); hdr["seed"] = json!(seed); hdr["format"] = json!(if zcash { "zcash" } else { "ark" });
    hdr["p"] = num_to_json(&p, true); hdr["nlimbs"] = json!(D::B::nlimbs()); hdr["lv"] = json!(D::B::levels(true));
    hdr["r"] = num_to_json(&r_mod, true); hdr["h"] = num_to_json(&h, true);
    writeln!(out, "{}", hdr).unwrap();
    let gen: D::G = <D::G as PrimeGroup>::generator();
    let deg: usize = D::B::shape().iter().product::<usize>().max(1);
    // base-field elements with structure: small, in a subfield, single non-zero coordinate, p-1 ...
    let special_elem = |rng: &mut Rng| -> D::B {
        let mut c: Vec<BigUint> = vec![BigUint::from(0u32); deg];
        match rng.below(5) {
            0 => { c[0] = BigUint::from(rng.below(20)); }
            1 => { c[0] = &p - BigUint::from(rng.below(20) + 1); }
            2 => { let i = rng.below(deg as u64) as usize; c[i] = BigUint::from(rng.below(20) + 1); }
            3 => { let i = rng.below(deg as u64) as usize; c[i] = &p - BigUint::from(rng.below(20) + 1); }
            _ => { for x in c.iter_mut() { *x = rng.biguint_below(&p); } let i = rng.below(deg as u64) as usize; c[i] = BigUint::from(0u32); }
        }
        D::B::from_coords(&c)
    };
    let params = D::params(true);
    let a_is_zero = D::KIND == "sw" && params["a"] == D::B::zero().to_abs(true).unwrap();
    let coeff_b = if D::KIND == "sw" { Some(D::B::from_abs(&params["b"], true)) } else { None };
    // a curve point of one of several classes
    let point = |rng: &mut Rng| -> Aff<D> {
        match rng.below(10) {
            0 => Aff::<D>::zero(),
            1 => gen.into_affine(),
            2 => gen.mul_bigint([rng.below(50)]).into_affine(),
            3 | 4 => gen.mul_bigint(rng.biguint_below(&r_mod).to_u64_digits()).into_affine(),
            5 | 6 => { for _ in 0..200 { if let Some(a) = D::from_coord(crate::curve::random_base_pub::<D::B>(rng), rng.coin()) { return a; } } gen.into_affine() }
            7 => { for _ in 0..200 { if let Some(a) = D::from_coord(special_elem(rng), rng.coin()) { return a; } } gen.into_affine() }
            _ => {
                // a = 0: choose the OTHER coordinate (y) with structure and solve for x
                if let (true, Some(b)) = (a_is_zero, coeff_b) {
                    for _ in 0..60 {
                        let y = special_elem(rng);
                        if let Some(x) = cube_root(&(y * y - b)) {
                            let mut j = json!([x.to_abs(true).unwrap(), y.to_abs(true).unwrap()]);
                            if rng.coin() { j[1] = (-y).to_abs(true).unwrap(); }
                            let a = D::aff(&j, true);
                            if D::aff_on_curve(&a) { return a; }
                        }
                    }
                }
                gen.mul_bigint([rng.below(50) + 1]).into_affine()
            }
        }
    };
    let ser = |a: &Aff<D>, c: Compress| -> Vec<u8> { let mut b = vec![]; a.serialize_with_mode(&mut b, c).expect("serialize"); b };
    let mut step = 0;
    while step < n {
        step += 1;
        let compressed = rng.coin();
        let c = if compressed { Compress::Yes } else { Compress::No };
        let choice = rng.below(100);
        if choice < 30 {
            // serialize a point through one of the entry points
            let a = point(&mut rng);
            let pj = D::aff_abs(&a, true).unwrap();
            let via = *rng.pick(&["affine_serialize_with_mode", "affine_shorthand", "projective_rescaled", "exact_size_buffer"]);
            rep.op("ser_point");
            intent(&json!({"machine": "ser", "cfg": cfg, "seed": seed, "step": step, "event": {"op": "ser_point", "P": pj, "compressed": compressed, "via": via}}));
            let res = guarded(|| -> (Vec<u8>, usize) { match via {
                "affine_serialize_with_mode" => (ser(&a, c), a.serialized_size(c)),
                "affine_shorthand" => { let mut b = vec![]; if compressed { a.serialize_compressed(&mut b) } else { a.serialize_uncompressed(&mut b) }.expect("serialize"); (b, if compressed { a.compressed_size() } else { a.uncompressed_size() }) }
                "projective_rescaled" => { let mut r2 = Rng(seed ^ step as u64); let lam = loop { let l = crate::curve::random_base_pub::<D::B>(&mut r2); if !l.is_zero() { break l } };
                                           let g = D::proj(&pj, &lam, true); let mut b = vec![]; g.serialize_with_mode(&mut b, c).expect("serialize"); (b, g.serialized_size(c)) }
                _ => { let size = a.serialized_size(c); let mut buf = vec![0u8; size]; let mut w: &mut [u8] = &mut buf; a.serialize_with_mode(&mut w, c).expect("fits the advertised size"); assert!(w.is_empty(), "wrote fewer bytes than advertised"); (buf, size) }
            } });
            rep.evaluations += 1;
            let mut ev = json!({"op": "ser_point", "P": pj, "compressed": compressed, "via": via});
            match res { Ok((b, size)) => { ev["bytes"] = bytes_json(&b); ev["size"] = json!(size); if !a.is_zero() { rep.nontrivial.insert(format!("ser:{step}")); } } Err(e) => { ev["panic"] = json!(e); } }
            rep.sample(&json!({"op": "ser_point", "via": via, "compressed": compressed}));
            writeln!(out, "{}", ev).unwrap();
        } else if choice < 80 {
            // deserialize crafted bytes: a real encoding, possibly mutated
            let a = point(&mut rng);
            let mut bytes = guarded(|| ser(&a, c)).unwrap_or_default();
            if bytes.is_empty() { continue }
            let len = bytes.len();
            let flag_byte = if zcash { 0 } else { len - 1 };
            let m = rng.below(16);
            match m {
                0 | 1 | 2 => {}
                3 => { bytes[flag_byte] ^= 0x80; }
                4 => { bytes[flag_byte] ^= 0x40; }
                5 => { bytes[flag_byte] ^= 0x20; }
                6 => { let i = rng.below(len as u64) as usize; bytes[i] ^= 1 << rng.below(8); }
                7 => { bytes.pop(); }
                8 => { bytes.push(rng.next() as u8); }
                9 => { // a coordinate that is not reduced: add p to the first base-field coordinate (if it still fits)
                       let w = len / (deg * if compressed { 1 } else { 2 });
                       if w > 0 { let chunk: Vec<u8> = bytes[..w].to_vec();
                           let (v, top) = if zcash { (BigUint::from_bytes_be(&{ let mut c2 = chunk.clone(); c2[0] &= 0x1f; c2 }), chunk[0] & 0xe0) } else { (BigUint::from_bytes_le(&chunk), 0) };
                           let v2 = v + &p;
                           let enc = if zcash { v2.to_bytes_be() } else { v2.to_bytes_le() };
                           if enc.len() <= w { let mut nb = vec![0u8; w]; if zcash { nb[w - enc.len()..].copy_from_slice(&enc); nb[0] |= top; } else { nb[..enc.len()].copy_from_slice(&enc); } bytes[..w].copy_from_slice(&nb); } } }
                10 => { let i = if zcash { len - 1 } else { 0 }; bytes[i] = bytes[i].wrapping_add(1); }          // x + 1 (compressed) / changes a low byte
                11 => { if !compressed { let i = if zcash { len - 1 } else { len / 2 }; bytes[i] = bytes[i].wrapping_add(1); } }   // y + 1: off the curve
                12 => { bytes = vec![0u8; len]; bytes[flag_byte] = if zcash { if compressed { 0xc0 } else { 0x40 } } else { 0x40 }; } // canonical infinity
                13 => { bytes[flag_byte] |= 0x40; }                                                               // infinity flag on a finite point
                14 => { bytes = rng.bytes(len); }
                _ => { bytes = vec![0xffu8; len]; }
            }
            let validate = rng.coin();
            let v = if validate { Validate::Yes } else { Validate::No };
            let via = *rng.pick(&["affine_deserialize_with_mode", "projective_deserialize_with_mode", "affine_shorthand"]);
            rep.op("deser_point");
            intent(&json!({"machine": "ser", "cfg": cfg, "seed": seed, "step": step, "event": {"op": "deser_point", "bytes": bytes_json(&bytes), "compressed": compressed, "validate": validate, "via": via}}));
            let run = |v: Validate, via: &str| -> Result<Option<(Aff<D>, usize)>, String> { guarded(|| { let mut r: &[u8] = &bytes; match via {
                "affine_deserialize_with_mode" => Aff::<D>::deserialize_with_mode(&mut r, c, v).ok().map(|p| (p, bytes.len() - r.len())),
                "projective_deserialize_with_mode" => D::G::deserialize_with_mode(&mut r, c, v).ok().map(|g| (g.into_affine(), bytes.len() - r.len())),
                _ => { let res = match (compressed, v) { (true, Validate::Yes) => Aff::<D>::deserialize_compressed(&mut r), (true, Validate::No) => Aff::<D>::deserialize_compressed_unchecked(&mut r),
                                                         (false, Validate::Yes) => Aff::<D>::deserialize_uncompressed(&mut r), (false, Validate::No) => Aff::<D>::deserialize_uncompressed_unchecked(&mut r) };
                       res.ok().map(|p| (p, bytes.len() - r.len())) } } }) };
            rep.evaluations += 1;
            let mut ev = json!({"op": "deser_point", "bytes": bytes_json(&bytes), "compressed": compressed, "validate": validate, "via": via, "mutation": m, "Q": [], "W": [], "ok": false, "n": 0});
            match run(v, via) {
                Ok(Some((q, used))) => { ev["ok"] = json!(true); ev["n"] = json!(used); match D::aff_abs(&q, true) { Ok(j) => { ev["Q"] = j; } Err(e) => { ev["panic"] = json!(e); } } rep.nontrivial.insert(format!("de:{step}")); }
                Ok(None) => {
                    // witness for a rejection by validation: what the bytes decode to without it
                    if validate { if let Ok(Some((w, _))) = run(Validate::No, "affine_deserialize_with_mode") { if let Ok(j) = D::aff_abs(&w, true) { ev["W"] = j; } } }
                }
                Err(e) => { ev["panic"] = json!(e); }
            }
            rep.sample(&json!({"op": "deser_point", "via": via, "mutation": m, "ok": ev["ok"]}));
            writeln!(out, "{}", ev).unwrap();
        } else if choice < 90 {
            // field element with flags
            let x = if rng.coin() { special_elem(&mut rng) } else { crate::curve::random_base_pub::<D::B>(&mut rng) };
            let (kind, mask): (&str, u64) = *rng.pick(&[("none", 0u64), ("sw", 0), ("sw", 64), ("sw", 128), ("te", 0), ("te", 128)]);
            rep.op("ser_field");
            let res = guarded(|| -> (Vec<u8>, usize) { let mut b = vec![]; match kind {
                "none" => { x.serialize_with_flags(&mut b, EmptyFlags).expect("serialize"); (b, x.serialized_size_with_flags::<EmptyFlags>()) }
                "sw" => { x.serialize_with_flags(&mut b, sw_flag(mask)).expect("serialize"); (b, x.serialized_size_with_flags::<SWFlags>()) }
                _ => { x.serialize_with_flags(&mut b, te_flag(mask)).expect("serialize"); (b, x.serialized_size_with_flags::<TEFlags>()) } } });
            rep.evaluations += 1;
            let mut ev = json!({"op": "ser_field", "v": x.to_abs(true).unwrap(), "kind": kind, "mask": mask});
            match res { Ok((b, size)) => { ev["bytes"] = bytes_json(&b); ev["size"] = json!(size); rep.nontrivial.insert(format!("serf:{step}")); } Err(e) => { ev["panic"] = json!(e); } }
            writeln!(out, "{}", ev).unwrap();
        } else {
            // decode a field element from crafted bytes
            let x = if rng.coin() { special_elem(&mut rng) } else { crate::curve::random_base_pub::<D::B>(&mut rng) };
            let kind = *rng.pick(&["none", "sw", "te"]);
            let mut bytes = vec![];
            match kind { "none" => x.serialize_with_flags(&mut bytes, EmptyFlags), "sw" => x.serialize_with_flags(&mut bytes, sw_flag(*rng.pick(&[0u64, 64, 128]))), _ => x.serialize_with_flags(&mut bytes, te_flag(*rng.pick(&[0u64, 128]))) }.expect("serialize");
            let len = bytes.len();
            match rng.below(10) {
                0 | 1 => {}
                2 => { bytes[len - 1] ^= 0x80; } 3 => { bytes[len - 1] ^= 0x40; } 4 => { bytes[len - 1] |= 0xc0; } 5 => { bytes[len - 1] ^= 0x20; }
                6 => { bytes.pop(); } 7 => { bytes = vec![0xffu8; len]; }
                8 => { let w = len / deg; let v2 = BigUint::from_bytes_le(&bytes[..w]) + &p; let enc = v2.to_bytes_le(); if enc.len() <= w { let mut nb = vec![0u8; w]; nb[..enc.len()].copy_from_slice(&enc); bytes[..w].copy_from_slice(&nb); } }
                _ => { let i = rng.below(len as u64) as usize; bytes[i] ^= 1 << rng.below(8); }
            }
            rep.op("deser_field");
            let b2 = bytes.clone();
            let res = guarded(|| -> Option<(D::B, &'static str, usize)> { let mut r: &[u8] = &b2; match kind {
                "none" => D::B::deserialize_with_flags::<_, EmptyFlags>(&mut r).ok().map(|(v, _)| (v, "none", b2.len() - r.len())),
                "sw" => D::B::deserialize_with_flags::<_, SWFlags>(&mut r).ok().map(|(v, f)| (v, sw_name(f), b2.len() - r.len())),
                _ => D::B::deserialize_with_flags::<_, TEFlags>(&mut r).ok().map(|(v, f): (D::B, TEFlags)| (v, if f.is_negative() { "neg" } else { "pos" }, b2.len() - r.len())) } });
            rep.evaluations += 1;
            let mut ev = json!({"op": "deser_field", "bytes": bytes_json(&bytes), "kind": kind, "ok": false, "v": [], "flag": "none", "n": 0});
            match res {
                Ok(Some((v, f, used))) => { ev["ok"] = json!(true); ev["flag"] = json!(f); ev["n"] = json!(used); match v.to_abs(true) { Ok(j) => ev["v"] = j, Err(e) => ev["panic"] = json!(e) } rep.nontrivial.insert(format!("def:{step}")); }
                Ok(None) => {}
                Err(e) => { ev["panic"] = json!(e); }
            }
            writeln!(out, "{}", ev).unwrap();
        }
    }
    let _ = D::B::one();
    rep.transitions = n as u64;
    rep
}
