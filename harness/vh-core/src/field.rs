//! Driver for FieldMachine: executes one event of the specification on the real
//! ark-ff code through every public API variant that denotes the operation.
use crate::elem::Elem;
use crate::util::*;
use ark_ff::{batch_inversion, batch_inversion_and_mul, Field, LegendreSymbol};
use num_bigint::BigUint;
use num_traits::ToPrimitive;
use serde_json::{json, Value};
use std::collections::{BTreeMap, BTreeSet};

pub type Outcome<F> = Result<(Vec<F>, Value), String>;
type Variant<'a, F> = (&'static str, Box<dyn Fn(&mut Vec<F>) -> Value + 'a>);

fn intern(s: &str) -> &'static str {
    use std::sync::{Mutex, OnceLock};
    static T: OnceLock<Mutex<std::collections::HashMap<String, &'static str>>> = OnceLock::new();
    let mut m = T.get_or_init(|| Mutex::new(Default::default())).lock().unwrap();
    if let Some(x) = m.get(s) { return x; }
    let l: &'static str = Box::leak(s.to_string().into_boxed_str());
    m.insert(s.to_string(), l);
    l
}
fn idx(ev: &Value, k: &str) -> usize {
    ev[k].as_u64().unwrap_or_else(|| panic!("event field {k} missing in {ev}")) as usize - 1
}
fn idxs(ev: &Value, k: &str) -> Vec<usize> {
    ev[k].as_array().expect("index list").iter().map(|x| x.as_u64().unwrap() as usize - 1).collect()
}

fn sum_of_products_dyn<F: Field>(a: &[F], b: &[F]) -> F {
    macro_rules! go { ($($n:literal),*) => { match a.len() { $( $n => {
        let aa: [F; $n] = core::array::from_fn(|i| a[i]);
        let bb: [F; $n] = core::array::from_fn(|i| b[i]);
        F::sum_of_products(&aa, &bb) } )* _ => panic!("sum_of_products arity") } } }
    go!(0, 1, 2, 3, 4, 5, 6, 7, 8, 9, 10, 11, 12, 16, 17, 33)
}

fn from_int<F: Field>(ty: &str, neg: bool, mag: u128) -> F {
    let s = |m: u128| -> i128 { if neg { (m as i128).wrapping_neg() } else { m as i128 } };
    match ty {
        "u8" => F::from(mag as u8),
        "u16" => F::from(mag as u16),
        "u32" => F::from(mag as u32),
        "u64" => F::from(mag as u64),
        "u128" => F::from(mag),
        "i8" => F::from(s(mag) as i8),
        "i16" => F::from(s(mag) as i16),
        "i32" => F::from(s(mag) as i32),
        "i64" => F::from(s(mag) as i64),
        "i128" => F::from(s(mag)),
        "bool" => F::from(mag == 1),
        _ => panic!("int type {ty}"),
    }
}

/// All API variants for one event.  Every closure mutates a copy of the register file and
/// returns the value the call handed back (Null when there is none).
pub fn variants<'a, F: Elem>(ev: &'a Value, big: bool) -> Vec<Variant<'a, F>> {
    let op = ev["op"].as_str().expect("op");
    let mut v: Vec<Variant<'a, F>> = Vec::new();
    macro_rules! var { ($name:literal, |$r:ident| $body:expr) => { v.push(($name, Box::new(move |$r: &mut Vec<F>| $body))) }; }
    match op {
        "load" => {}
        "add" => {
            let (d, s) = (idx(ev, "d"), idx(ev, "s"));
            var!("add_assign_val", |r| { let b = r[s]; r[d] += b; Value::Null });
            var!("add_assign_ref", |r| { let b = r[s]; r[d] += &b; Value::Null });
            var!("add_val", |r| { r[d] = r[d] + r[s]; Value::Null });
            var!("add_ref", |r| { let b = r[s]; r[d] = r[d] + &b; Value::Null });
            var!("add_mutref", |r| { let mut b = r[s]; r[d] = r[d] + &mut b; Value::Null });
            var!("sum_iter_ref", |r| { r[d] = [r[d], r[s]].iter().sum(); Value::Null });
            var!("sum_iter_val", |r| { r[d] = vec![r[d], r[s]].into_iter().sum(); Value::Null });
        }
        "sub" => {
            let (d, s) = (idx(ev, "d"), idx(ev, "s"));
            var!("sub_assign_val", |r| { let b = r[s]; r[d] -= b; Value::Null });
            var!("sub_assign_ref", |r| { let b = r[s]; r[d] -= &b; Value::Null });
            var!("sub_val", |r| { r[d] = r[d] - r[s]; Value::Null });
            var!("sub_ref", |r| { let b = r[s]; r[d] = r[d] - &b; Value::Null });
            var!("sub_mutref", |r| { let mut b = r[s]; r[d] = r[d] - &mut b; Value::Null });
        }
        "mul" => {
            let (d, s) = (idx(ev, "d"), idx(ev, "s"));
            var!("mul_assign_val", |r| { let b = r[s]; r[d] *= b; Value::Null });
            var!("mul_assign_ref", |r| { let b = r[s]; r[d] *= &b; Value::Null });
            var!("mul_val", |r| { r[d] = r[d] * r[s]; Value::Null });
            var!("mul_ref", |r| { let b = r[s]; r[d] = r[d] * &b; Value::Null });
            var!("mul_mutref", |r| { let mut b = r[s]; r[d] = r[d] * &mut b; Value::Null });
            var!("product_iter_ref", |r| { r[d] = [r[d], r[s]].iter().product(); Value::Null });
            var!("product_iter_val", |r| { r[d] = vec![r[d], r[s]].into_iter().product(); Value::Null });
            var!("sum_of_products_1", |r| { r[d] = F::sum_of_products(&[r[d]], &[r[s]]); Value::Null });
        }
        "div" => {
            let (d, s) = (idx(ev, "d"), idx(ev, "s"));
            var!("div_assign_val", |r| { let b = r[s]; r[d] /= b; Value::Null });
            var!("div_assign_ref", |r| { let b = r[s]; r[d] /= &b; Value::Null });
            var!("div_val", |r| { r[d] = r[d] / r[s]; Value::Null });
            var!("div_ref", |r| { let b = r[s]; r[d] = r[d] / &b; Value::Null });
        }
        "neg" => {
            let d = idx(ev, "d");
            var!("neg", |r| { r[d] = -r[d]; json!("some") });
            var!("neg_in_place", |r| { r[d].neg_in_place(); json!("some") });
            var!("zero_minus", |r| { r[d] = F::zero() - r[d]; json!("some") });
        }
        "dbl" => {
            let d = idx(ev, "d");
            var!("double", |r| { r[d] = r[d].double(); json!("some") });
            var!("double_in_place", |r| { r[d].double_in_place(); json!("some") });
        }
        "sqr" => {
            let d = idx(ev, "d");
            var!("square", |r| { r[d] = r[d].square(); json!("some") });
            var!("square_in_place", |r| { r[d].square_in_place(); json!("some") });
        }
        "inv" => {
            let d = idx(ev, "d");
            var!("inverse", |r| match r[d].inverse() { Some(x) => { r[d] = x; json!("some") } None => json!("none") });
            var!("inverse_in_place", |r| match r[d].inverse_in_place() { Some(_) => json!("some"), None => json!("none") });
        }
        "pow" => {
            let d = idx(ev, "d");
            let e = num_from_json(&ev["e"], big);
            let limbs = e.to_u64_digits();
            let l1 = limbs.clone();
            var!("pow", |r| { r[d] = r[d].pow(&l1); Value::Null });
            let mut l2 = limbs.clone();
            l2.push(0); l2.push(0);
            var!("pow_leading_zero_limbs", |r| { r[d] = r[d].pow(&l2); Value::Null });
            let l3 = limbs.clone();
            var!("pow_with_table", |r| {
                let mut t = vec![r[d]];
                for _ in 0..(64 * l3.len().max(1)) { let l = *t.last().unwrap(); t.push(l.square()); }
                r[d] = F::pow_with_table(&t, &l3).expect("table long enough");
                Value::Null
            });
        }
        "frob" => {
            let d = idx(ev, "d");
            let n = ev["n"].as_u64().unwrap() as usize;
            var!("frobenius_map", |r| { r[d] = r[d].frobenius_map(n); Value::Null });
            var!("frobenius_map_in_place", |r| { r[d].frobenius_map_in_place(n); Value::Null });
        }
        "from_int" => {
            let d = idx(ev, "d");
            let ty = ev["ty"].as_str().unwrap();
            let neg = ev["neg"].as_bool().unwrap();
            let mag = num_from_json(&ev["mag"], big).to_u128().expect("u128 magnitude");
            var!("from", |r| { r[d] = from_int::<F>(ty, neg, mag); Value::Null });
        }
        "sum_of_products" => {
            let d = idx(ev, "d");
            let (is, js) = (idxs(ev, "is"), idxs(ev, "js"));
            var!("sum_of_products", |r| {
                let a: Vec<F> = is.iter().map(|&i| r[i]).collect();
                let b: Vec<F> = js.iter().map(|&i| r[i]).collect();
                r[d] = sum_of_products_dyn(&a, &b);
                Value::Null
            });
        }
        "batch_inv" => {
            let ds = idxs(ev, "ds");
            let c = ev["c"].as_u64().unwrap() as usize;
            if c == 0 {
                let ds1 = ds.clone();
                var!("batch_inversion", |r| {
                    let mut v: Vec<F> = ds1.iter().map(|&i| r[i]).collect();
                    batch_inversion(&mut v);
                    for (k, &i) in ds1.iter().enumerate() { r[i] = v[k]; }
                    Value::Null
                });
            }
            let ds2 = ds.clone();
            var!("batch_inversion_and_mul", |r| {
                let mut v: Vec<F> = ds2.iter().map(|&i| r[i]).collect();
                let coeff = if c == 0 { F::one() } else { r[c - 1] };
                batch_inversion_and_mul(&mut v, &coeff);
                for (k, &i) in ds2.iter().enumerate() { r[i] = v[k]; }
                Value::Null
            });
        }
        "is_zero" => { let d = idx(ev, "d"); var!("is_zero", |r| json!(r[d].is_zero())); var!("eq_zero", |r| json!(r[d] == F::zero())); }
        "is_one" => { let d = idx(ev, "d"); var!("is_one", |r| json!(r[d].is_one())); var!("eq_one", |r| json!(r[d] == F::one())); }
        "eq" => {
            let (d, s) = (idx(ev, "d"), idx(ev, "s"));
            var!("eq", |r| json!(r[d] == r[s]));
            var!("ne", |r| json!(!(r[d] != r[s])));
            var!("hash_eq_implied", |r| {
                use std::hash::{Hash, Hasher};
                let h = |x: &F| { let mut s = std::collections::hash_map::DefaultHasher::new(); x.hash(&mut s); s.finish() };
                // equal values must hash equally; report the spec's answer unless that is violated
                if r[d] == r[s] && h(&r[d]) != h(&r[s]) { json!("hash differs for equal values") } else { json!(r[d] == r[s]) }
            });
        }
        "cmp" => {
            let (d, s) = (idx(ev, "d"), idx(ev, "s"));
            let o = |c: std::cmp::Ordering| match c { std::cmp::Ordering::Less => -1, std::cmp::Ordering::Equal => 0, std::cmp::Ordering::Greater => 1 };
            var!("cmp", |r| json!(o(r[d].cmp(&r[s]))));
            var!("partial_cmp", |r| json!(o(r[d].partial_cmp(&r[s]).expect("total order"))));
            var!("lt_gt", |r| json!(if r[d] < r[s] { -1 } else if r[d] > r[s] { 1 } else { 0 }));
        }
        "legendre" => {
            let d = idx(ev, "d");
            var!("legendre", |r| json!(match r[d].legendre() { LegendreSymbol::Zero => 0, LegendreSymbol::QuadraticResidue => 1, LegendreSymbol::QuadraticNonResidue => -1 }));
            var!("legendre_preds", |r| { let l = r[d].legendre(); json!(if l.is_zero() { 0 } else if l.is_qr() { 1 } else if l.is_qnr() { -1 } else { 99 }) });
        }
        "norm" | "conj" | "mul_base" | "sparse" | "cyc_sq" | "cyc_inv" | "cyc_exp" => {
            // type-specific tower operations: the variants are whatever the concrete type offers (elem.rs)
            let d = idx(ev, "d");
            let names: Vec<String> = F::one().extra(op, ev, big).into_iter().map(|x| x.0).collect();
            for (k, name) in names.into_iter().enumerate() {
                let is_norm = op == "norm";
                v.push((intern(&name), Box::new(move |r: &mut Vec<F>| {
                    let res = r[d].extra(op, ev, big).swap_remove(k).1;
                    match res {
                        Ok(val) => if is_norm { val } else { r[d] = F::from_abs(&val, big); Value::Null },
                        Err(e) => panic!("{}", e),
                    }
                })));
            }
        }
        "sqrt" => {
            let d = idx(ev, "d");
            var!("sqrt", |r| match r[d].sqrt() { Some(x) => { r[d] = x; json!("some") } None => json!("none") });
            var!("sqrt_in_place", |r| match r[d].sqrt_in_place() { Some(_) => json!("some"), None => json!("none") });
        }
        "from_bytes_mod" => {
            let d = idx(ev, "d");
            let be = ev["be"].as_bool().unwrap();
            let bytes = json_bytes(&ev["bytes"]);
            var!("from_bytes_mod_order", |r| { r[d] = F::p_from_bytes_mod(&bytes, be).expect("prime field"); Value::Null });
        }
        "from_bigint" => {
            let d = idx(ev, "d");
            let val = num_from_json(&ev["v"], big);
            var!("from_bigint", |r| match F::p_from_bigint(&val).expect("prime field") { Some(x) => { r[d] = x; json!("some") } None => json!("none") });
        }
        "from_str" => {
            // the numeral is written with num-bigint, independently of the code under test
            let d = idx(ev, "d");
            let mag = num_from_json(&ev["mag"], big);
            let neg = ev["neg"].as_bool().unwrap();
            let s1 = format!("{}{}", if neg { "-" } else { "" }, mag);
            let s2 = s1.clone();
            var!("from_str", |r| { r[d] = F::p_from_str(&s1, false).expect("prime field").map_err(|_| "from_str failed").unwrap(); Value::Null });
            var!("str_parse", |r| { r[d] = F::p_from_str(&s2, true).expect("prime field").map_err(|_| "parse failed").unwrap(); Value::Null });
        }
        "to_str" => {
            let d = idx(ev, "d");
            // the numeral must be the canonical one (no sign, no leading zeros): parse it back independently and compare the text
            let chk = move |s: String| -> Value { let v = BigUint::parse_bytes(s.as_bytes(), 10).unwrap_or_else(|| panic!("not a decimal numeral: {s}")); assert_eq!(v.to_string(), s, "non-canonical numeral"); num_to_json(&v, big) };
            var!("to_string", |r| chk(r[d].to_string()));
            var!("format_display", |r| chk(format!("{}", r[d])));
        }
        "into_bigint" => {
            let d = idx(ev, "d");
            var!("into_bigint", |r| num_to_json(&r[d].p_into_bigint().expect("prime field"), big));
        }
        _ => panic!("unknown field event {op}"),
    }
    v
}

/// Does the result of this op count as non-trivial (for coverage statistics)?
fn nontrivial<F: Elem>(pre: &[F], post: &[F]) -> bool {
    post.iter().zip(pre).any(|(a, b)| a != b && !a.is_zero() && !a.is_one())
}

const RELATIONAL: &[&str] = &["sqrt"];

/// Conformance A: replay TLC-emitted transitions on the real field type F.
pub fn replay<F: Elem>(trans: impl Iterator<Item = Value>, big: bool) -> Report {
    let mut rep = Report::default();
    // relational ops: (pre, ev-without-ret) -> allowed (post, ret); observed outcomes
    let mut allowed: BTreeMap<String, BTreeSet<String>> = BTreeMap::new();
    let mut observed: BTreeMap<String, Vec<(String, String)>> = BTreeMap::new();
    for t in trans {
        rep.transitions += 1;
        let ev = &t["ev"];
        let op = ev["op"].as_str().expect("op").to_string();
        rep.op(&op);
        let pre: Vec<F> = t["pre"].as_array().expect("pre").iter().map(|x| F::from_abs(x, big)).collect();
        let post_abs = t["post"].clone();
        let want_ret = ev.get("ret").cloned().unwrap_or(Value::Null);
        let relational = RELATIONAL.contains(&op.as_str());
        let key = if relational {
            let mut e2 = ev.clone();
            e2.as_object_mut().unwrap().remove("ret");
            format!("{}|{}", t["pre"], e2)
        } else { String::new() };
        if relational {
            let first = !allowed.contains_key(&key);
            allowed.entry(key.clone()).or_default().insert(format!("{}|{}", post_abs, want_ret));
            if !first { continue; }
        }
        if rep.transitions % 997 == 1 { rep.sample(&t); }
        if op == "sqrt" && !F::has_sqrt() { continue; }
        intent(&t);
        for (name, f) in variants::<F>(ev, big) {
            rep.evaluations += 1;
            let mut regs = pre.clone();
            let out = guarded(|| f(&mut regs));
            let got: Result<(Value, Value), String> = out.and_then(|ret| {
                let abs: Result<Vec<Value>, String> = regs.iter().map(|x| x.to_abs(big)).collect();
                abs.map(|a| (Value::Array(a), ret))
            });
            match got {
                Ok((abs, ret)) => {
                    if relational {
                        observed.entry(key.clone()).or_default().push((name.to_string(), format!("{}|{}", abs, ret)));
                        continue;
                    }
                    let ret_ok = ret.is_null() || want_ret.is_null() || ret == want_ret;
                    if abs != post_abs || !ret_ok {
                        rep.mismatch(json!({"transition": t, "variant": name, "got_post": abs, "got_ret": ret}));
                    } else if nontrivial(&pre, &regs) {
                        rep.nontrivial.insert(format!("{}|{}", t["pre"], ev));
                    }
                }
                Err(e) => rep.mismatch(json!({"transition": t, "variant": name, "error": e})),
            }
        }
    }
    for (key, obs) in observed {
        let al = &allowed[&key];
        for (name, o) in obs {
            if !al.contains(&o) {
                rep.mismatch(json!({"relational": key, "variant": name, "got": o, "allowed": al.iter().collect::<Vec<_>>()}));
            } else {
                rep.nontrivial.insert(key.clone());
            }
        }
    }
    rep
}

#[allow(dead_code)]
pub fn biguint_from_limbs(l: &[u64]) -> BigUint { limbs_to_biguint(l) }

// ---------------------------------------------------------------------------------------
// Conformance B: seeded random programs on the real code, logged as an ndjson trace that
// TLC validates against FieldMachine (spec/trace/Trace_Field.tla).

/// Boundary alphabet of a prime field with modulus p and N limbs (values are reduced mod p).
pub fn boundary_values(p: &BigUint, nlimbs: usize) -> Vec<BigUint> {
    use num_traits::One;
    let one = BigUint::one();
    let mut v: Vec<BigUint> = vec![BigUint::from(0u32), one.clone(), BigUint::from(2u32), BigUint::from(3u32)];
    let pm = |k: u32| (p + p - BigUint::from(k)) % p;
    v.extend([pm(1), pm(2), pm(3), (p - &one) >> 1, ((p - &one) >> 1) + &one, p >> 2]);
    for k in 1..=nlimbs {
        let w = &one << (64 * k);
        v.push(&w % p);
        v.push((&w - &one) % p);
        v.push((&w + &one) % p);
        v.push((&one << (64 * k - 1)) % p);
        v.push((p + p - (&w % p)) % p);
    }
    // all-ones limbs, alternating patterns
    let ones = (&one << (64 * nlimbs)) - &one;
    v.push(&ones % p);
    v.push((&ones / BigUint::from(3u32)) % p);
    // Montgomery constants seen as values
    let r = (&one << (64 * nlimbs)) % p;
    v.push((&r * &r) % p);
    v.push(r.modpow(&(p - BigUint::from(2u32)), p));
    v.push(BigUint::from(u32::MAX));
    v.push(BigUint::from(u64::MAX) % p);
    v.sort();
    v.dedup();
    v
}

fn random_coord(rng: &mut Rng, p: &BigUint, alpha: &[BigUint]) -> BigUint {
    match rng.below(10) {
        0..=3 => rng.biguint_below(p),
        4..=7 => rng.pick(alpha).clone(),
        8 => BigUint::from(0u32),
        _ => BigUint::from(rng.below(4)),
    }
}

fn random_elem<F: Elem>(rng: &mut Rng, alpha: &[BigUint]) -> F {
    let p = F::modulus();
    let deg: usize = F::shape().iter().product();
    let style = rng.below(8);
    let coords: Vec<BigUint> = (0..deg)
        .map(|i| match style {
            0 => if i == 0 { random_coord(rng, &p, alpha) } else { BigUint::from(0u32) }, // prime-field element
            1 => if rng.below(3) == 0 { random_coord(rng, &p, alpha) } else { BigUint::from(0u32) }, // sparse
            _ => random_coord(rng, &p, alpha),
        })
        .collect();
    F::from_coords(&coords)
}

/// Exhaustive unary program for small prime fields that are too large for the quadratic
/// root search of the TLC toy model: every x in F_p is loaded and sent through sqrt, legendre,
/// inverse, square ...; TLC validates each event (the root through the relation y^2 = x).
pub fn record_exhaustive_unary<F: Elem>(cfg: &str, out: &mut dyn std::io::Write) -> Report {
    use num_traits::ToPrimitive;
    let mut rep = Report::default();
    let p = F::modulus().to_u64().expect("small prime field");
    assert!(F::shape().is_empty());
    let hdr = json!({"op": "reset", "cfg": cfg, "p": num_to_json(&F::modulus(), true), "nlimbs": F::nlimbs(),
                     "lv": F::levels(true), "nreg": 1, "program": "exhaustive-unary"});
    writeln!(out, "{}", hdr).unwrap();
    let ops = ["sqrt", "legendre", "inv", "sqr", "neg", "dbl", "is_zero", "is_one", "into_bigint"];
    let mut vi = 0usize;
    for x in 0..p {
        let xe = F::from_coords(&[BigUint::from(x)]);
        for op in ops {
            let mut regs = vec![xe];
            let mut ev = json!({"op": "load", "d": 1, "w": [[1, xe.raw_json()]]});
            writeln!(out, "{}", ev).unwrap();
            ev = json!({"op": op, "d": 1, "s": 1});
            intent(&json!({"machine": "field", "cfg": cfg, "x": x, "event": ev}));
            let evc = ev.clone();
            let vs = variants::<F>(&evc, true);
            vi += 1;
            let (name, f) = &vs[vi % vs.len()];
            ev["via"] = json!(name);
            rep.evaluations += 1;
            rep.op(op);
            match guarded(|| f(&mut regs)) {
                Ok(r) => { if !r.is_null() { ev["ret"] = r; } }
                Err(e) => { ev["panic"] = json!(e); regs = vec![xe]; }
            }
            let query = ["legendre", "is_zero", "is_one", "into_bigint"].contains(&op);
            let none = ev.get("ret") == Some(&json!("none"));
            ev["w"] = if query || (none && regs[0] == xe) { json!([]) } else { json!([[1, regs[0].raw_json()]]) };
            if regs[0] != xe && !regs[0].is_zero() && !regs[0].is_one() { rep.nontrivial.insert(format!("{op}:{x}")); }
            if x % 997 == 5 { rep.sample(&ev); }
            writeln!(out, "{}", ev).unwrap();
        }
    }
    rep.transitions = rep.evaluations;
    rep
}

pub fn record<F: Elem>(cfg: &str, seed: u64, n: usize, out: &mut dyn std::io::Write) -> Report {
    let mut rep = Report::default();
    let mut rng = Rng(seed ^ 0xF1E1D);
    let p = F::modulus();
    let nl = F::nlimbs();
    let alpha = boundary_values(&p, nl);
    let is_prime = F::shape().is_empty();
    const K: usize = 4;
    let mut regs: Vec<F> = vec![F::zero(); K];
    let hdr = json!({"op": "reset", "cfg": cfg, "p": num_to_json(&p, true), "nlimbs": nl,
                     "lv": F::levels(true), "nreg": K, "seed": seed});
    writeln!(out, "{}", hdr).unwrap();
    let extdeg: usize = F::shape().iter().product();
    // exponents for pow
    let pow_exps = |rng: &mut Rng| -> BigUint {
        use num_traits::One;
        let one = BigUint::one();
        match rng.below(12) {
            0 => BigUint::from(0u32),
            1 => one.clone(),
            2 => BigUint::from(2u32),
            3 => &p - &one,
            4 => p.clone(),
            5 => &p - BigUint::from(2u32),
            6 => (&p - &one) >> 1,
            7 => BigUint::from(u64::MAX),
            8 => (&one << (64 * nl)) - &one,
            9 => &one << 64,
            _ => rng.biguint_below(&(&one << (64 * nl))),
        }
    };
    // budget (in base-field multiplications on the validator side) for pow / Frobenius events
    let mut heavy_budget: u64 = 3_000_000 + 2_000 * n as u64;
    let mut pending_cyc: Option<usize> = None;
    let mut forced: Option<Value> = None;
    let mut cyc_value: Option<F> = None;
    let mut step = 0usize;
    // scripted prologue (prime fields with a square-root algorithm): the 2-power roots of unity of low and of maximal order are
    // the inputs on which Tonelli-Shanks makes its longest jumps (order 2^k needs a jump of s - k - 1 squarings; the shipped
    // two-adicities go up to 47): load each, ask for the Legendre symbol and the root.
    let mut script: std::collections::VecDeque<(Option<F>, Value)> = Default::default();
    if is_prime && F::has_sqrt() && p > BigUint::from(3u32) {
        let one = BigUint::from(1u32);
        let mut t = &p - &one; let mut tw = 0u32;
        while !t.bit(0) { t >>= 1; tw += 1; }
        let mut g = BigUint::from(2u32);
        while g.modpow(&((&p - &one) >> 1), &p) == one { g += 1u32; }
        let root = g.modpow(&t, &p);
        let mut ks: Vec<u32> = (1..=tw.min(6)).collect();
        if tw > 6 { ks.push(tw - 1); ks.push(tw); }
        for k in ks {
            let w = root.modpow(&(&one << (tw - k)), &p);
            for v in [w.clone(), (&w * BigUint::from(4u32)) % &p, (&w * &w * &g * &g) % &p] {
                script.push_back((Some(F::from_coords(&[v])), json!({"op": "load", "d": 1})));
                script.push_back((None, json!({"op": "legendre", "d": 1, "s": 1})));
                script.push_back((None, json!({"op": "sqrt", "d": 1})));
            }
        }
    }
    while step < n {
        step += 1;
        let mut d = rng.below(K as u64) as usize;
        let s = rng.below(K as u64) as usize;
        // choose the next event
        let mut choice = rng.below(100);
        if pending_cyc.is_none() {
            if let Some((v, e)) = script.pop_front() {
                d = e["d"].as_u64().unwrap() as usize - 1;
                if v.is_some() { cyc_value = v; }
                forced = Some(e);
                choice = 1000;
            }
        }
        if let Some(c) = pending_cyc.take() {
            // the register holds a freshly loaded element of the cyclotomic subgroup: exercise the fast paths on it
            let nl4 = 64 * (1 + rng.below(4));
            let e = match rng.below(8) { 0 => BigUint::from(0u32), 1 => BigUint::from(1u32), 2 => BigUint::from(u64::MAX), 3 => BigUint::from(1u32) << 64, 4 => BigUint::from(rng.below(1 << 20)), _ => rng.biguint_below(&(BigUint::from(1u32) << nl4)) };
            let ev = match rng.below(4) { 0 => json!({"op": "cyc_sq", "d": c + 1}), 1 => json!({"op": "cyc_inv", "d": c + 1}), _ => json!({"op": "cyc_exp", "d": c + 1, "e": num_to_json(&e, true)}) };
            forced = Some(ev);
            choice = 1000;
        }
        let mut ev: Value = match choice {
            1000 => forced.take().unwrap(),
            93..=99 if !is_prime => {
                let shape = F::shape();
                let top = shape.len();
                match rng.below(7) {
                    0 => json!({"op": "norm", "d": d + 1}),
                    1 => if shape[top - 1] == 2 { json!({"op": "conj", "d": d + 1}) } else { json!({"op": "norm", "d": d + 1}) },
                    2 | 3 => { let j = rng.below(top as u64) as usize; json!({"op": "mul_base", "d": d + 1, "j": j, "s": random_abs(&mut rng, &shape[..j], &p, &alpha)}) }
                    4 | 5 => {
                        let (lvl, sets): (usize, Vec<Vec<u64>>) = if top >= 2 && shape[top - 1] == 3 { (top - 1, vec![vec![0, 1], vec![1]]) }
                            else if top >= 2 && shape[top - 2] == 3 { (top - 2, vec![vec![0, 3, 4], vec![0, 1, 4]]) } else { (0, vec![]) };
                        if sets.is_empty() { continue }
                        let sl = rng.pick(&sets).clone();
                        let cs: Vec<Value> = sl.iter().map(|_| random_abs(&mut rng, &shape[..lvl], &p, &alpha)).collect();
                        json!({"op": "sparse", "d": d + 1, "slots": sl, "cs": cs}) }
                    _ => {
                        // load an element of the cyclotomic subgroup: y^((p^n - 1) / Phi_n(p)), computed by the code under test and
                        // checked for membership by the specification before the fast paths are applied to it
                        let n = extdeg as u32;
                        let pn = p.pow(n) - 1u32;
                        let phi = match n { 2 => &p + 1u32, 3 => &p * &p + &p + 1u32, 4 => &p * &p + 1u32, 6 => &p * &p - &p + 1u32, 12 => p.pow(4) - &p * &p + 1u32, _ => continue };
                        let y = random_elem::<F>(&mut rng, &alpha);
                        if y.is_zero() { continue }
                        cyc_value = Some(y.pow((pn / phi).to_u64_digits()));
                        pending_cyc = Some(d);
                        json!({"op": "load", "d": d + 1}) }
                } }
            0..=14 => json!({"op": "load", "d": d + 1}),
            15..=24 => json!({"op": "add", "d": d + 1, "s": s + 1}),
            25..=32 => json!({"op": "sub", "d": d + 1, "s": s + 1}),
            33..=46 => json!({"op": "mul", "d": d + 1, "s": s + 1}),
            47..=49 => if regs[s].is_zero() { continue } else { json!({"op": "div", "d": d + 1, "s": s + 1}) },
            50..=52 => json!({"op": "neg", "d": d + 1}),
            53..=55 => json!({"op": "dbl", "d": d + 1}),
            56..=61 => json!({"op": "sqr", "d": d + 1}),
            62..=66 => json!({"op": "inv", "d": d + 1}),
            67..=68 => {
                // the validator computes x^e by square-and-multiply in TLA+: keep a cost budget
                let e = pow_exps(&mut rng);
                let cost = (e.bits() + 1) * (extdeg * extdeg) as u64;
                if cost > heavy_budget { continue }
                heavy_budget -= cost;
                json!({"op": "pow", "d": d + 1, "e": num_to_json(&e, true)})
            }
            69..=70 => {
                let k = rng.below(extdeg as u64 + 3);
                let cost = (k % extdeg as u64) * p.bits() * (extdeg * extdeg) as u64 * 3 / 2;
                if cost > heavy_budget { continue }
                heavy_budget -= cost;
                json!({"op": "frob", "d": d + 1, "n": k})
            }
            71..=74 => {
                let tys = ["u8", "u16", "u32", "u64", "u128", "i8", "i16", "i32", "i64", "i128", "bool"];
                let ty = *rng.pick(&tys);
                let bits: u32 = match ty { "u8" | "i8" => 8, "u16" | "i16" => 16, "u32" | "i32" => 32, "u64" | "i64" => 64, "bool" => 1, _ => 128 };
                let signed = ty.starts_with('i');
                let neg = signed && rng.coin();
                let maxmag: u128 = if ty == "bool" { 1 } else if signed { if neg { 1u128 << (bits - 1) } else { (1u128 << (bits - 1)) - 1 } } else if bits == 128 { u128::MAX } else { (1u128 << bits) - 1 };
                let mag: u128 = match rng.below(5) {
                    0 => maxmag,
                    1 => if neg { 1 } else { 0 },
                    2 => maxmag - (maxmag > 0) as u128 * (rng.below(3) as u128).min(maxmag),
                    _ => { let r = ((rng.next() as u128) << 64) | rng.next() as u128; if maxmag == u128::MAX { r } else { r % (maxmag + 1) } }
                };
                let mag = if neg && mag == 0 { 1 } else { mag };
                json!({"op": "from_int", "d": d + 1, "ty": ty, "neg": neg, "mag": num_to_json(&BigUint::from(mag), true)})
            }
            75..=79 => {
                let lens = [0usize, 1, 2, 2, 2, 3, 4, 5, 6, 8, 9, 11, 12, 16, 17, 33];
                let m = *rng.pick(&lens);
                let is: Vec<u64> = (0..m).map(|_| rng.below(K as u64) + 1).collect();
                let js: Vec<u64> = (0..m).map(|_| rng.below(K as u64) + 1).collect();
                json!({"op": "sum_of_products", "d": d + 1, "is": is, "js": js})
            }
            80..=82 => {
                let mut ds: Vec<u64> = (1..=K as u64).filter(|_| rng.coin()).collect();
                let c = if rng.coin() { 0 } else { rng.below(K as u64) + 1 };
                ds.retain(|&x| x != c);
                if rng.coin() { ds.reverse(); }
                json!({"op": "batch_inv", "ds": ds, "c": c})
            }
            83..=88 => { let q = *rng.pick(&["is_zero", "is_one", "eq", "cmp", "legendre"]);
                         let s2 = if q == "eq" || q == "cmp" { s } else { d };
                         json!({"op": q, "d": d + 1, "s": s2 + 1}) }
            89..=92 => if !F::has_sqrt() { continue } else { json!({"op": "sqrt", "d": d + 1}) },
            93..=95 => if !is_prime { continue } else {
                let maxlen = 2 * 8 * nl + 3;
                let len = match rng.below(6) { 0 => 0, 1 => 8 * nl, 2 => 8 * nl + 1, 3 => maxlen, _ => rng.below(maxlen as u64 + 1) as usize };
                let bytes = match rng.below(4) { 0 => vec![0xffu8; len], 1 => { let mut b = vec![0u8; len]; if len > 0 { b[len - 1] = 1; } b } _ => rng.bytes(len) };
                json!({"op": "from_bytes_mod", "d": d + 1, "be": rng.coin(), "bytes": bytes_json(&bytes)})
            },
            96..=97 => if !is_prime { continue } else {
                use num_traits::One;
                let one = BigUint::one();
                let top = &one << (64 * nl);
                let v = match rng.below(8) { 0 => p.clone(), 1 => &p + &one, 2 => &p - &one, 3 => &top - &one, 4 => BigUint::from(0u32), 5 => rng.biguint_below(&p), _ => rng.biguint_below(&top) };
                json!({"op": "from_bigint", "d": d + 1, "v": num_to_json(&v, true)})
            },
            _ => if !is_prime { continue } else { match rng.below(4) {
                0 => json!({"op": "into_bigint", "d": d + 1}),
                1 => json!({"op": "to_str", "d": d + 1}),
                _ => { use num_traits::One; let one = BigUint::one(); let top = &one << (64 * nl + 70);
                       let mag = match rng.below(8) { 0 => BigUint::from(0u32), 1 => p.clone(), 2 => &p - &one, 3 => &p + &one, 4 => &p * 3u32 + 5u32, 5 => BigUint::from(rng.below(1000)), 6 => rng.biguint_below(&p), _ => rng.biguint_below(&top) };
                       json!({"op": "from_str", "d": d + 1, "neg": rng.below(3) == 0, "mag": num_to_json(&mag, true)}) } } },
        };
        let op = ev["op"].as_str().unwrap().to_string();
        rep.op(&op);
        intent(&json!({"machine": "field", "cfg": cfg, "seed": seed, "step": step, "event": ev}));
        let before = regs.clone();
        let mut ret = Value::Null;
        let mut failure: Option<String> = None;
        if op == "load" {
            // correlated operands now and then
            regs[d] = if let Some(c) = cyc_value.take() { c } else { match rng.below(8) {
                0 => regs[s],
                1 => { let x = regs[s].to_abs(true).ok(); match x { Some(_) => F::from_coords(&coords_neg::<F>(&regs[s])), None => random_elem::<F>(&mut rng, &alpha) } }
                _ => random_elem::<F>(&mut rng, &alpha),
            } };
        } else {
            let evc = ev.clone();
            let vs = variants::<F>(&evc, true);
            if vs.is_empty() { continue }
            let k = rng.below(vs.len() as u64) as usize;
            let (name, f) = &vs[k];
            ev["via"] = json!(name);
            match guarded(|| f(&mut regs)) {
                Ok(r) => ret = r,
                Err(e) => { failure = Some(e); regs = before.clone(); }
            }
        }
        rep.evaluations += 1;
        // written registers: the destination(s) and anything else that changed
        let mut w: Vec<Value> = Vec::new();
        for i in 0..K {
            let named = ev.get("d").and_then(|x| x.as_u64()) == Some(i as u64 + 1)
                || ev.get("ds").and_then(|x| x.as_array()).map_or(false, |a| a.iter().any(|x| x.as_u64() == Some(i as u64 + 1)));
            let changed = regs[i] != before[i] || regs[i].raw_json() != before[i].raw_json();
            let is_query = ["is_zero", "is_one", "eq", "cmp", "legendre", "into_bigint", "norm", "to_str"].contains(&op.as_str());
            if changed || (named && !is_query && !(op == "sqrt" && ret == json!("none"))) {
                w.push(json!([i + 1, regs[i].raw_json()]));
            }
        }
        ev["w"] = Value::Array(w);
        if !ret.is_null() { ev["ret"] = ret; }
        if let Some(f) = failure { ev["panic"] = json!(f); }
        if regs.iter().zip(&before).any(|(a, b)| a != b && !a.is_zero() && !a.is_one()) {
            rep.nontrivial.insert(format!("{}:{}", op, step));
        }
        rep.sample(&ev);
        writeln!(out, "{}", ev).unwrap();

    }
    rep.transitions = n as u64;
    rep
}

/// abstract element of the subfield whose tower has the given shape (degrees from the bottom), random / boundary coordinates
fn random_abs(rng: &mut Rng, shape: &[usize], p: &BigUint, alpha: &[BigUint]) -> Value {
    match shape.split_last() {
        None => num_to_json(&random_coord(rng, p, alpha), true),
        Some((d, rest)) => Value::Array((0..*d).map(|_| random_abs(rng, rest, p, alpha)).collect()),
    }
}

/// coordinates of -x computed with num-bigint from the decoded coordinates of x
fn coords_neg<F: Elem>(x: &F) -> Vec<BigUint> {
    let p = F::modulus();
    fn flat(v: &Value, out: &mut Vec<BigUint>, leaf: bool) {
        let _ = leaf;
        match v {
            Value::Array(a) if a.iter().all(|e| e.is_array()) && !a.is_empty() => for e in a { flat(e, out, false) },
            _ => out.push(num_from_json(v, true)),
        }
    }
    let abs = x.to_abs(true).expect("canonical");
    let mut c = Vec::new();
    // leaves are byte arrays; distinguish by the declared shape instead of by structure
    fn walk(v: &Value, shape: &[usize], out: &mut Vec<BigUint>) {
        match shape.split_last() {
            None => out.push(num_from_json(v, true)),
            Some((_, rest)) => for e in v.as_array().unwrap() { walk(e, rest, out) },
        }
    }
    let _ = flat;
    walk(&abs, &F::shape(), &mut c);
    c.into_iter().map(|v| if v == BigUint::from(0u32) { v } else { &p - v }).collect()
}
