//! Driver for FieldMachine: executes one event of the specification on the real
//! ark-ff code through every public API variant that denotes the operation.
use crate::elem::Elem;
use crate::util::*;
use ark_ff::{batch_inversion, batch_inversion_and_mul, Field, LegendreSymbol};
use num_bigint::BigUint;
use num_traits::ToPrimitive;
use serde_json::{json, Value};
use std::collections::{BTreeMap, BTreeSet};

pub type Outcome<F> = Result<(Vec<F>, Value), String>;
type Variant<'a, F> = (&'static str, Box<dyn Fn(&mut Vec<F>) -> Value + 'a>);

fn idx(ev: &Value, k: &str) -> usize {
    ev[k].as_u64().unwrap_or_else(|| panic!("event field {k} missing in {ev}")) as usize - 1
}
fn idxs(ev: &Value, k: &str) -> Vec<usize> {
    ev[k].as_array().expect("index list").iter().map(|x| x.as_u64().unwrap() as usize - 1).collect()
}

fn sum_of_products_dyn<F: Field>(a: &[F], b: &[F]) -> F {
    macro_rules! go { ($($n:literal),*) => { match a.len() { $( $n => {
        let aa: [F; $n] = core::array::from_fn(|i| a[i]);
        let bb: [F; $n] = core::array::from_fn(|i| b[i]);
        F::sum_of_products(&aa, &bb) } )* _ => panic!("sum_of_products arity") } } }
    go!(0, 1, 2, 3, 4, 5, 6, 7, 8, 9, 10, 11, 12, 16, 17, 33)
}

fn from_int<F: Field>(ty: &str, neg: bool, mag: u128) -> F {
    let s = |m: u128| -> i128 { if neg { (m as i128).wrapping_neg() } else { m as i128 } };
    match ty {
        "u8" => F::from(mag as u8),
        "u16" => F::from(mag as u16),
        "u32" => F::from(mag as u32),
        "u64" => F::from(mag as u64),
        "u128" => F::from(mag),
        "i8" => F::from(s(mag) as i8),
        "i16" => F::from(s(mag) as i16),
        "i32" => F::from(s(mag) as i32),
        "i64" => F::from(s(mag) as i64),
        "i128" => F::from(s(mag)),
        "bool" => F::from(mag == 1),
        _ => panic!("int type {ty}"),
    }
}

/// All API variants for one event.  Every closure mutates a copy of the register file and
/// returns the value the call handed back (Null when there is none).
pub fn variants<'a, F: Elem>(ev: &'a Value, big: bool) -> Vec<Variant<'a, F>> {
    let op = ev["op"].as_str().expect("op");
    let mut v: Vec<Variant<'a, F>> = Vec::new();
    macro_rules! var { ($name:literal, |$r:ident| $body:expr) => { v.push(($name, Box::new(move |$r: &mut Vec<F>| $body))) }; }
    match op {
        "load" => {}
        "add" => {
            let (d, s) = (idx(ev, "d"), idx(ev, "s"));
            var!("add_assign_val", |r| { let b = r[s]; r[d] += b; Value::Null });
            var!("add_assign_ref", |r| { let b = r[s]; r[d] += &b; Value::Null });
            var!("add_val", |r| { r[d] = r[d] + r[s]; Value::Null });
            var!("add_ref", |r| { let b = r[s]; r[d] = r[d] + &b; Value::Null });
            var!("add_mutref", |r| { let mut b = r[s]; r[d] = r[d] + &mut b; Value::Null });
            var!("sum_iter_ref", |r| { r[d] = [r[d], r[s]].iter().sum(); Value::Null });
            var!("sum_iter_val", |r| { r[d] = vec![r[d], r[s]].into_iter().sum(); Value::Null });
        }
        "sub" => {
            let (d, s) = (idx(ev, "d"), idx(ev, "s"));
            var!("sub_assign_val", |r| { let b = r[s]; r[d] -= b; Value::Null });
            var!("sub_assign_ref", |r| { let b = r[s]; r[d] -= &b; Value::Null });
            var!("sub_val", |r| { r[d] = r[d] - r[s]; Value::Null });
            var!("sub_ref", |r| { let b = r[s]; r[d] = r[d] - &b; Value::Null });
            var!("sub_mutref", |r| { let mut b = r[s]; r[d] = r[d] - &mut b; Value::Null });
        }
        "mul" => {
            let (d, s) = (idx(ev, "d"), idx(ev, "s"));
            var!("mul_assign_val", |r| { let b = r[s]; r[d] *= b; Value::Null });
            var!("mul_assign_ref", |r| { let b = r[s]; r[d] *= &b; Value::Null });
            var!("mul_val", |r| { r[d] = r[d] * r[s]; Value::Null });
            var!("mul_ref", |r| { let b = r[s]; r[d] = r[d] * &b; Value::Null });
            var!("mul_mutref", |r| { let mut b = r[s]; r[d] = r[d] * &mut b; Value::Null });
            var!("product_iter_ref", |r| { r[d] = [r[d], r[s]].iter().product(); Value::Null });
            var!("product_iter_val", |r| { r[d] = vec![r[d], r[s]].into_iter().product(); Value::Null });
            var!("sum_of_products_1", |r| { r[d] = F::sum_of_products(&[r[d]], &[r[s]]); Value::Null });
        }
        "div" => {
            let (d, s) = (idx(ev, "d"), idx(ev, "s"));
            var!("div_assign_val", |r| { let b = r[s]; r[d] /= b; Value::Null });
            var!("div_assign_ref", |r| { let b = r[s]; r[d] /= &b; Value::Null });
            var!("div_val", |r| { r[d] = r[d] / r[s]; Value::Null });
            var!("div_ref", |r| { let b = r[s]; r[d] = r[d] / &b; Value::Null });
        }
        "neg" => {
            let d = idx(ev, "d");
            var!("neg", |r| { r[d] = -r[d]; json!("some") });
            var!("neg_in_place", |r| { r[d].neg_in_place(); json!("some") });
            var!("zero_minus", |r| { r[d] = F::zero() - r[d]; json!("some") });
        }
        "dbl" => {
            let d = idx(ev, "d");
            var!("double", |r| { r[d] = r[d].double(); json!("some") });
            var!("double_in_place", |r| { r[d].double_in_place(); json!("some") });
        }
        "sqr" => {
            let d = idx(ev, "d");
            var!("square", |r| { r[d] = r[d].square(); json!("some") });
            var!("square_in_place", |r| { r[d].square_in_place(); json!("some") });
        }
        "inv" => {
            let d = idx(ev, "d");
            var!("inverse", |r| match r[d].inverse() { Some(x) => { r[d] = x; json!("some") } None => json!("none") });
            var!("inverse_in_place", |r| match r[d].inverse_in_place() { Some(_) => json!("some"), None => json!("none") });
        }
        "pow" => {
            let d = idx(ev, "d");
            let e = num_from_json(&ev["e"], big);
            let limbs = e.to_u64_digits();
            let l1 = limbs.clone();
            var!("pow", |r| { r[d] = r[d].pow(&l1); Value::Null });
            let mut l2 = limbs.clone();
            l2.push(0); l2.push(0);
            var!("pow_leading_zero_limbs", |r| { r[d] = r[d].pow(&l2); Value::Null });
            let l3 = limbs.clone();
            var!("pow_with_table", |r| {
                let mut t = vec![r[d]];
                for _ in 0..(64 * l3.len().max(1)) { let l = *t.last().unwrap(); t.push(l.square()); }
                r[d] = F::pow_with_table(&t, &l3).expect("table long enough");
                Value::Null
            });
        }
        "frob" => {
            let d = idx(ev, "d");
            let n = ev["n"].as_u64().unwrap() as usize;
            var!("frobenius_map", |r| { r[d] = r[d].frobenius_map(n); Value::Null });
            var!("frobenius_map_in_place", |r| { r[d].frobenius_map_in_place(n); Value::Null });
        }
        "from_int" => {
            let d = idx(ev, "d");
            let ty = ev["ty"].as_str().unwrap();
            let neg = ev["neg"].as_bool().unwrap();
            let mag = num_from_json(&ev["mag"], big).to_u128().expect("u128 magnitude");
            var!("from", |r| { r[d] = from_int::<F>(ty, neg, mag); Value::Null });
        }
        "sum_of_products" => {
            let d = idx(ev, "d");
            let (is, js) = (idxs(ev, "is"), idxs(ev, "js"));
            var!("sum_of_products", |r| {
                let a: Vec<F> = is.iter().map(|&i| r[i]).collect();
                let b: Vec<F> = js.iter().map(|&i| r[i]).collect();
                r[d] = sum_of_products_dyn(&a, &b);
                Value::Null
            });
        }
        "batch_inv" => {
            let ds = idxs(ev, "ds");
            let c = ev["c"].as_u64().unwrap() as usize;
            if c == 0 {
                let ds1 = ds.clone();
                var!("batch_inversion", |r| {
                    let mut v: Vec<F> = ds1.iter().map(|&i| r[i]).collect();
                    batch_inversion(&mut v);
                    for (k, &i) in ds1.iter().enumerate() { r[i] = v[k]; }
                    Value::Null
                });
            }
            let ds2 = ds.clone();
            var!("batch_inversion_and_mul", |r| {
                let mut v: Vec<F> = ds2.iter().map(|&i| r[i]).collect();
                let coeff = if c == 0 { F::one() } else { r[c - 1] };
                batch_inversion_and_mul(&mut v, &coeff);
                for (k, &i) in ds2.iter().enumerate() { r[i] = v[k]; }
                Value::Null
            });
        }
        "is_zero" => { let d = idx(ev, "d"); var!("is_zero", |r| json!(r[d].is_zero())); var!("eq_zero", |r| json!(r[d] == F::zero())); }
        "is_one" => { let d = idx(ev, "d"); var!("is_one", |r| json!(r[d].is_one())); var!("eq_one", |r| json!(r[d] == F::one())); }
        "eq" => {
            let (d, s) = (idx(ev, "d"), idx(ev, "s"));
            var!("eq", |r| json!(r[d] == r[s]));
            var!("ne", |r| json!(!(r[d] != r[s])));
            var!("hash_eq_implied", |r| {
                use std::hash::{Hash, Hasher};
                let h = |x: &F| { let mut s = std::collections::hash_map::DefaultHasher::new(); x.hash(&mut s); s.finish() };
                // equal values must hash equally; report the spec's answer unless that is violated
                if r[d] == r[s] && h(&r[d]) != h(&r[s]) { json!("hash differs for equal values") } else { json!(r[d] == r[s]) }
            });
        }
        "cmp" => {
            let (d, s) = (idx(ev, "d"), idx(ev, "s"));
            let o = |c: std::cmp::Ordering| match c { std::cmp::Ordering::Less => -1, std::cmp::Ordering::Equal => 0, std::cmp::Ordering::Greater => 1 };
            var!("cmp", |r| json!(o(r[d].cmp(&r[s]))));
            var!("partial_cmp", |r| json!(o(r[d].partial_cmp(&r[s]).expect("total order"))));
            var!("lt_gt", |r| json!(if r[d] < r[s] { -1 } else if r[d] > r[s] { 1 } else { 0 }));
        }
        "legendre" => {
            let d = idx(ev, "d");
            var!("legendre", |r| json!(match r[d].legendre() { LegendreSymbol::Zero => 0, LegendreSymbol::QuadraticResidue => 1, LegendreSymbol::QuadraticNonResidue => -1 }));
            var!("legendre_preds", |r| { let l = r[d].legendre(); json!(if l.is_zero() { 0 } else if l.is_qr() { 1 } else if l.is_qnr() { -1 } else { 99 }) });
        }
        "sqrt" => {
            let d = idx(ev, "d");
            var!("sqrt", |r| match r[d].sqrt() { Some(x) => { r[d] = x; json!("some") } None => json!("none") });
            var!("sqrt_in_place", |r| match r[d].sqrt_in_place() { Some(_) => json!("some"), None => json!("none") });
        }
        "from_bytes_mod" => {
            let d = idx(ev, "d");
            let be = ev["be"].as_bool().unwrap();
            let bytes = json_bytes(&ev["bytes"]);
            var!("from_bytes_mod_order", |r| { r[d] = F::p_from_bytes_mod(&bytes, be).expect("prime field"); Value::Null });
        }
        "from_bigint" => {
            let d = idx(ev, "d");
            let val = num_from_json(&ev["v"], big);
            var!("from_bigint", |r| match F::p_from_bigint(&val).expect("prime field") { Some(x) => { r[d] = x; json!("some") } None => json!("none") });
        }
        "into_bigint" => {
            let d = idx(ev, "d");
            var!("into_bigint", |r| num_to_json(&r[d].p_into_bigint().expect("prime field"), big));
        }
        _ => panic!("unknown field event {op}"),
    }
    v
}

/// Does the result of this op count as non-trivial (for coverage statistics)?
fn nontrivial<F: Elem>(pre: &[F], post: &[F]) -> bool {
    post.iter().zip(pre).any(|(a, b)| a != b && !a.is_zero() && !a.is_one())
}

const RELATIONAL: &[&str] = &["sqrt"];

/// Conformance A: replay TLC-emitted transitions on the real field type F.
pub fn replay<F: Elem>(trans: impl Iterator<Item = Value>, big: bool) -> Report {
    let mut rep = Report::default();
    // relational ops: (pre, ev-without-ret) -> allowed (post, ret); observed outcomes
    let mut allowed: BTreeMap<String, BTreeSet<String>> = BTreeMap::new();
    let mut observed: BTreeMap<String, Vec<(String, String)>> = BTreeMap::new();
    for t in trans {
        rep.transitions += 1;
        let ev = &t["ev"];
        let op = ev["op"].as_str().expect("op").to_string();
        rep.op(&op);
        let pre: Vec<F> = t["pre"].as_array().expect("pre").iter().map(|x| F::from_abs(x, big)).collect();
        let post_abs = t["post"].clone();
        let want_ret = ev.get("ret").cloned().unwrap_or(Value::Null);
        let relational = RELATIONAL.contains(&op.as_str());
        let key = if relational {
            let mut e2 = ev.clone();
            e2.as_object_mut().unwrap().remove("ret");
            format!("{}|{}", t["pre"], e2)
        } else { String::new() };
        if relational {
            let first = !allowed.contains_key(&key);
            allowed.entry(key.clone()).or_default().insert(format!("{}|{}", post_abs, want_ret));
            if !first { continue; }
        }
        if rep.transitions % 997 == 1 { rep.sample(&t); }
        for (name, f) in variants::<F>(ev, big) {
            rep.evaluations += 1;
            let mut regs = pre.clone();
            let out = guarded(|| f(&mut regs));
            let got: Result<(Value, Value), String> = out.and_then(|ret| {
                let abs: Result<Vec<Value>, String> = regs.iter().map(|x| x.to_abs(big)).collect();
                abs.map(|a| (Value::Array(a), ret))
            });
            match got {
                Ok((abs, ret)) => {
                    if relational {
                        observed.entry(key.clone()).or_default().push((name.to_string(), format!("{}|{}", abs, ret)));
                        continue;
                    }
                    let ret_ok = ret.is_null() || want_ret.is_null() || ret == want_ret;
                    if abs != post_abs || !ret_ok {
                        rep.mismatch(json!({"transition": t, "variant": name, "got_post": abs, "got_ret": ret}));
                    } else if nontrivial(&pre, &regs) {
                        rep.nontrivial.insert(format!("{}|{}", t["pre"], ev));
                    }
                }
                Err(e) => rep.mismatch(json!({"transition": t, "variant": name, "error": e})),
            }
        }
    }
    for (key, obs) in observed {
        let al = &allowed[&key];
        for (name, o) in obs {
            if !al.contains(&o) {
                rep.mismatch(json!({"relational": key, "variant": name, "got": o, "allowed": al.iter().collect::<Vec<_>>()}));
            } else {
                rep.nontrivial.insert(key.clone());
            }
        }
    }
    rep
}

#[allow(dead_code)]
pub fn biguint_from_limbs(l: &[u64]) -> BigUint { limbs_to_biguint(l) }
