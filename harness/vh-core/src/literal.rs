//! C20: compile-time literals (MontFp!, BigInt!) and derive-macro constants vs the specification.
use crate::elem::Elem;
use crate::util::*;
use ark_ff::{Fp, MontBackend, MontConfig, PrimeField, FftField};
use serde_json::{json, Value};
use std::collections::HashMap;

pub fn replay<T: MontConfig<N>, const N: usize>(cfg: &str, trans: impl Iterator<Item = Value>) -> Report {
    type F<T, const N: usize> = Fp<MontBackend<T, N>, N>;
    let mut rep = Report::default();
    let mont: HashMap<&str, Value> = crate::gen_lit::literal_table(cfg, "montfp").into_iter().collect();
    let big: HashMap<&str, Value> = crate::gen_lit::literal_table(cfg, "bigint").into_iter().collect();
    let p = F::<T, N>::modulus();
    let rinv = crate::elem::mont_r::<N>(&p).modpow(&(&p - 2u32), &p);
    for t in trans {
        rep.transitions += 1;
        let ev = &t["ev"];
        let op = ev["op"].as_str().unwrap();
        rep.op(op);
        rep.evaluations += 1;
        if rep.transitions % 199 == 1 { rep.sample(&t); }
        match op {
            "montfp" => {
                let lit = ev["lit"].as_str().unwrap();
                match mont.get(lit) {
                    None => rep.mismatch(json!({"transition": t, "error": "literal missing from the compiled table (stale gen_lit.rs?)"})),
                    Some(raw) => {
                        let r = num_from_json(raw, true);
                        let want = num_from_json(&ev["ret"], true);
                        // run-time path from the same text (decimal literals only): FromStr
                        if r >= p { rep.mismatch(json!({"transition": t, "error": "literal constant is not a canonical residue", "raw": raw})); }
                        else if (&r * &rinv) % &p != want { rep.mismatch(json!({"transition": t, "got": num_to_json(&((&r * &rinv) % &p), true)})); }
                        else {
                            let rt = F::<T, N>::from_abs(&ev["ret"], true);
                            if rt.raw_json() != *raw { rep.mismatch(json!({"transition": t, "error": "constant differs from the run-time element with the same value"})); }
                            else if !want.eq(&num_bigint::BigUint::from(0u32)) { rep.nontrivial.insert(lit.to_string()); }
                        }
                    }
                }
            }
            "bigint" => {
                let lit = ev["lit"].as_str().unwrap();
                match big.get(lit) {
                    None => rep.mismatch(json!({"transition": t, "error": "literal missing from the compiled table (stale gen_lit.rs?)"})),
                    Some(v) => if *v != ev["ret"] { rep.mismatch(json!({"transition": t, "got": v})); } else { rep.nontrivial.insert(format!("B{lit}")); }
                }
            }
            "derive" => {
                let want = &ev["ret"];
                let lim = |l: &[u64]| num_to_json(&limbs_to_biguint(l), true);
                let got = json!({
                    "nlimbs": N, "modulus": lim(&T::MODULUS.0), "bits": F::<T, N>::MODULUS_BIT_SIZE,
                    "r": lim(&T::R.0), "r2": lim(&T::R2.0), "inv": num_to_json(&num_bigint::BigUint::from(T::INV), true),
                    "two_adicity": <F<T, N> as FftField>::TWO_ADICITY,
                    "generator": <F<T, N> as FftField>::GENERATOR.to_abs(true).unwrap_or(json!("non-canonical")),
                    "two_adic_root": <F<T, N> as FftField>::TWO_ADIC_ROOT_OF_UNITY.to_abs(true).unwrap_or(json!("non-canonical")),
                    "has_spare_bit": T::MODULUS_HAS_SPARE_BIT,
                });
                if got != *want { rep.mismatch(json!({"transition": t, "got": got})); } else { rep.nontrivial.insert("derive".into()); }
            }
            _ => panic!("unknown literal event {op}"),
        }
    }
    rep
}
