//! Driver for PairingMachine: random programs on a real pairing engine, logged as equality
//! patterns (which registers are equal to the written one, is it the identity, is it valid).
use crate::util::*;
use ark_ec::pairing::{Pairing, PairingOutput};
use ark_ec::{AffineRepr, CurveGroup, PrimeGroup};
use ark_ff::{PrimeField, Zero, Field};
use num_bigint::BigUint;
use serde_json::{json, Value};

/// fingerprint of a group element: hash of its canonical (compressed) serialization.  The specification
/// requires fingerprint equality to coincide with equality of discrete logarithms over the WHOLE history
/// of the trace, not only among the live registers.
fn fingerprint<T: ark_serialize::CanonicalSerialize>(x: &T) -> String {
    use std::hash::{Hash, Hasher};
    let mut b = Vec::new();
    x.serialize_compressed(&mut b).expect("serialize");
    let mut h = std::collections::hash_map::DefaultHasher::new();
    b.hash(&mut h);
    format!("{:016x}", h.finish())
}

fn scalar<S: PrimeField>(k: &BigUint) -> S { S::from_le_bytes_mod_order(&k.to_bytes_le()) }

pub fn record<E: Pairing>(cfg: &str, seed: u64, n: usize, out: &mut dyn std::io::Write) -> Report {
    let mut rep = Report::default();
    let mut rng = Rng(seed ^ 0x9A1);
    const K: usize = 4;
    let r: BigUint = <E::ScalarField as PrimeField>::MODULUS.into();
    writeln!(out, "{}", json!({"op": "reset", "cfg": cfg, "r": num_to_json(&r, true), "nreg": K, "seed": seed})).unwrap();
    let mut g1 = vec![E::G1::zero(); K];
    let mut g2 = vec![E::G2::zero(); K];
    let mut gt = vec![PairingOutput::<E>::zero(); K];
    let pick_scalar = |rng: &mut Rng| -> BigUint {
        match rng.below(10) { 0 => BigUint::from(0u32), 1 => BigUint::from(1u32), 2 => BigUint::from(2u32), 3 => &r - 1u32, 4 | 5 | 6 => BigUint::from(rng.below(9)), 7 => &r - rng.below(5), _ => rng.biguint_below(&r) } };
    let mut forced: std::collections::VecDeque<Value> = Default::default();
    for step in 0..n {
        let mut d = rng.below(K as u64) as usize;
        let s = rng.below(K as u64) as usize;
        let mut c = rng.below(100);
        let grp = 1 + rng.below(2) as usize;
        // scripted pair of events: raise a non-identity target-group register to an exponent with whole limbs of ones (the
        // shapes on which NAF / windowed recodings carry across limbs), then to the inverse exponent modulo r: the register must
        // come back to a value whose fingerprint is already in the history.
        if forced.is_empty() && step % 9 == 4 && !gt[d].is_zero() {
            let one = BigUint::from(1u32);
            let m64: BigUint = (&one << 64u32) - &one;
            let ks: [BigUint; 7] = [m64.clone(), &m64 << 7u32, (&one << 128u32) - &one, &m64 << 64u32, (&m64 << 64u32) + 1u32, (&one << 127u32) - &one, (&m64 << 64u32) | BigUint::from(0x8000_0000_0000_0001u64)];
            let k: BigUint = ks[rng.below(ks.len() as u64) as usize].clone() % &r;
            if k != BigUint::from(0u32) {
                let kinv: BigUint = k.modpow(&(&r - 2u32), &r);
                let vias = ["scalar", "scalar_ref", "bigint", "bits_be", "bits_be_padded"];
                forced.push_back(json!({"op": "gt_pow", "d": d + 1, "k": num_to_json(&k, true), "via": *rng.pick(&vias)}));
                forced.push_back(json!({"op": "gt_pow", "d": d + 1, "k": num_to_json(&kinv, true), "via": *rng.pick(&vias)}));
            }
        }
        let forced_ev = forced.pop_front();
        if let Some(f) = &forced_ev { d = f["d"].as_u64().unwrap() as usize - 1; c = 1000; }
        let mut ev: Value = if c == 1000 { forced_ev.unwrap() } else if c < 22 { json!({"op": "load", "grp": grp, "d": d + 1, "k": num_to_json(&pick_scalar(&mut rng), true)}) }
            else if c < 34 { json!({"op": "add", "grp": grp, "d": d + 1, "s": s + 1}) }
            else if c < 40 { json!({"op": "neg", "grp": grp, "d": d + 1}) }
            else if c < 48 { json!({"op": "mul", "grp": grp, "d": d + 1, "k": num_to_json(&pick_scalar(&mut rng), true)}) }
            else if c < 80 {
                let len = match rng.below(10) { 0 => 0, 1..=4 => 1, 5 => 2, 6 => 3, 7 => 4, 8 => 5, _ => 9 };
                let is: Vec<u64> = (0..len).map(|_| rng.below(K as u64) + 1).collect();
                let js: Vec<u64> = (0..len).map(|_| rng.below(K as u64) + 1).collect();
                let algs = if len == 1 { vec!["pairing", "multi_pairing", "prepared", "miller_final"] } else { vec!["multi_pairing", "prepared", "miller_final", "product_of_pairings"] };
                json!({"op": "pair", "d": d + 1, "is": is, "js": js, "alg": *rng.pick(&algs)}) }
            else if c < 88 { json!({"op": "gt_mul", "d": d + 1, "s": s + 1}) }
            else if c < 92 { json!({"op": "gt_inv", "d": d + 1}) }
            else { json!({"op": "gt_pow", "d": d + 1, "k": num_to_json(&pick_scalar(&mut rng), true), "via": *rng.pick(&["scalar", "scalar_ref", "bigint", "bits_be", "bits_be_padded"])}) };
        let op = ev["op"].as_str().unwrap().to_string();
        rep.op(&op);
        intent(&json!({"machine": "pairing", "cfg": cfg, "seed": seed, "step": step, "event": ev}));
        if op == "pair" {
            let idn = ev["is"].as_array().unwrap().iter().zip(ev["js"].as_array().unwrap()).any(|(i, j)| g1[i.as_u64().unwrap() as usize - 1].is_zero() || g2[j.as_u64().unwrap() as usize - 1].is_zero());
            if idn { ev["has_identity"] = json!(true); }
        }
        let evc = ev.clone();
        let res = guarded(|| {
            match op.as_str() {
                "load" => { let k = num_from_json(&evc["k"], true);
                    if grp == 1 { g1[d] = E::G1::generator().mul_bigint(k.to_u64_digits()); if rng.coin() { g1[d] = g1[d].into_affine().into_group(); } }
                    else { g2[d] = E::G2::generator().mul_bigint(k.to_u64_digits()); } }
                "add" => if grp == 1 { let q = g1[s]; g1[d] += q } else { let q = g2[s]; g2[d] += q },
                "neg" => if grp == 1 { g1[d] = -g1[d] } else { g2[d] = -g2[d] },
                "mul" => { let k: E::ScalarField = scalar(&num_from_json(&evc["k"], true)); if grp == 1 { g1[d] *= k } else { g2[d] *= k } }
                "pair" => {
                    let is: Vec<usize> = evc["is"].as_array().unwrap().iter().map(|x| x.as_u64().unwrap() as usize - 1).collect();
                    let js: Vec<usize> = evc["js"].as_array().unwrap().iter().map(|x| x.as_u64().unwrap() as usize - 1).collect();
                    let a: Vec<E::G1Affine> = is.iter().map(|&i| g1[i].into_affine()).collect();
                    let b: Vec<E::G2Affine> = js.iter().map(|&j| g2[j].into_affine()).collect();
                    gt[d] = match evc["alg"].as_str().unwrap() {
                        "pairing" => E::pairing(a[0], b[0]),
                        "multi_pairing" => E::multi_pairing(a.clone(), b.clone()),
                        "prepared" => { let pa: Vec<E::G1Prepared> = a.iter().map(|x| E::G1Prepared::from(*x)).collect();
                                        let pb: Vec<E::G2Prepared> = b.iter().map(|x| E::G2Prepared::from(*x)).collect();
                                        E::multi_pairing(pa, pb) }
                        "miller_final" => { let ml = E::multi_miller_loop(a.clone(), b.clone()); E::final_exponentiation(ml).expect("final exponentiation") }
                        _ => a.iter().zip(&b).map(|(x, y)| E::pairing(g1_proj::<E>(x), *y)).sum(),
                    };
                }
                "gt_mul" => { let q = gt[s]; gt[d] += q }
                "gt_inv" => gt[d] = -gt[d],
                "gt_pow" => {
                    // every exponentiation path of the target group (PairingOutput as a PrimeGroup)
                    let kn = num_from_json(&evc["k"], true);
                    let k: E::ScalarField = scalar(&kn);
                    let bits = |pad: usize| -> Vec<bool> { let n = kn.bits() as usize; (0..pad).map(|_| false).chain((0..n).rev().map(|i| kn.bit(i as u64))).collect() };
                    match evc["via"].as_str().unwrap() {
                        "scalar" => gt[d] *= k,
                        "scalar_ref" => gt[d] = gt[d] * &k,
                        "bigint" => gt[d] = gt[d].mul_bigint(kn.to_u64_digits()),
                        "bits_be" => gt[d] = gt[d].mul_bits_be(bits(0).into_iter()),
                        _ => gt[d] = gt[d].mul_bits_be(bits(3).into_iter()),
                    }
                }
                _ => unreachable!(),
            }
        });
        rep.evaluations += 1;
        let g = if ["pair", "gt_mul", "gt_inv", "gt_pow"].contains(&op.as_str()) { 3 } else { grp };
        let (eqs, zero): (Vec<usize>, bool) = match g {
            1 => ((0..K).filter(|&j| g1[j] == g1[d] && g1[j].into_affine() == g1[d].into_affine()).map(|j| j + 1).collect(), g1[d].is_zero()),
            2 => ((0..K).filter(|&j| g2[j] == g2[d]).map(|j| j + 1).collect(), g2[d].is_zero()),
            _ => ((0..K).filter(|&j| gt[j] == gt[d]).map(|j| j + 1).collect(), gt[d].is_zero()),
        };
        ev["eqs"] = json!(eqs); ev["zero"] = json!(zero);
        if res.is_ok() && ev.get("has_identity").is_none() {
            ev["fp"] = json!(match g { 1 => fingerprint(&g1[d].into_affine()), 2 => fingerprint(&g2[d].into_affine()), _ => fingerprint(&gt[d]) });
        }
        if g == 3 {
            // every output has order dividing r, and the wrapper's own validity check agrees
            use ark_serialize::Valid;
            let order_ok = gt[d].0.pow(E::ScalarField::characteristic()) == <E::TargetField as Field>::ONE;
            ev["valid"] = json!(order_ok && gt[d].check().is_ok());
        }
        let failed = res.is_err();
        if let Err(e) = res { ev["panic"] = json!(e); }
        if !zero { rep.nontrivial.insert(format!("{op}:{step}")); }
        rep.sample(&ev);
        writeln!(out, "{}", ev).unwrap();
        // keep the specification and the implementation in step after a failed call or a call in a
        // class with a recorded finding: put the register into a known state
        if g == 3 && (failed || ev.get("has_identity").is_some()) {
            gt[d] = PairingOutput::<E>::zero();
            let eqs: Vec<usize> = (0..K).filter(|&j| gt[j] == gt[d]).map(|j| j + 1).collect();
            writeln!(out, "{}", json!({"op": "gt_reset", "d": d + 1, "eqs": eqs, "zero": true, "valid": true})).unwrap();
        }
    }
    rep.transitions = n as u64;
    rep
}

fn g1_proj<E: Pairing>(a: &E::G1Affine) -> E::G1 { a.into_group() }
