//! vh-core: conformance harness binding the TLA+ specification to the real arkworks code.
//!   vh-core replay <machine> --cfg <id> [--big]      TLC transition lines on stdin -> report JSON
//!   vh-core record <machine> --cfg <id> --seed S --n N --out FILE   real executions -> ndjson trace
mod elem;
mod field;
pub mod gen_toy;
mod util;

use serde_json::json;
use std::io::BufReader;

fn arg(args: &[String], name: &str) -> Option<String> {
    args.iter().position(|a| a == name).and_then(|i| args.get(i + 1).cloned())
}

fn replay_field<F: elem::Elem>(big: bool) -> util::Report {
    let stdin = std::io::stdin();
    field::replay::<F>(util::tlc_transitions(BufReader::new(stdin.lock())), big)
}

fn main() {
    // panics in code under test are data: keep the default hook quiet
    std::panic::set_hook(Box::new(|_| {}));
    let args: Vec<String> = std::env::args().collect();
    let cmd = args.get(1).map(|s| s.as_str()).unwrap_or("");
    let machine = args.get(2).map(|s| s.as_str()).unwrap_or("");
    let cfg = arg(&args, "--cfg").unwrap_or_default();
    let big = args.iter().any(|a| a == "--big");
    let rep = match (cmd, machine) {
        ("replay", "field") => with_toy_field!(cfg.as_str(), replay_field(big)),
        _ => {
            eprintln!("usage: vh-core replay|record <machine> --cfg <id> ...");
            std::process::exit(2);
        }
    };
    let mut j = rep.to_json();
    j["cfg"] = json!(cfg);
    j["machine"] = json!(machine);
    println!("{}", j);
}
