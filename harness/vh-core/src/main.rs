//! vh-core: conformance harness binding the TLA+ specification to the real arkworks code.
//!   vh-core replay <machine> --cfg <id> [--big]      TLC transition lines on stdin -> report JSON
//!   vh-core record <machine> --cfg <id> --seed S --n N --out FILE   real executions -> ndjson trace

use serde_json::json;
use vh_core::*;
use vh_core::{with_big_curve, with_big_field, with_toy_curve, with_toy_field, with_toy_prime_field, with_zoo_config};
use std::io::BufReader;

fn arg(args: &[String], name: &str) -> Option<String> {
    args.iter().position(|a| a == name).and_then(|i| args.get(i + 1).cloned())
}

fn replay_field<F: elem::Elem>(big: bool) -> util::Report {
    let stdin = std::io::stdin();
    field::replay::<F>(util::tlc_transitions(BufReader::new(stdin.lock())), big)
}

fn record_field<F: elem::Elem>(cfg: &str, seed: u64, n: usize, out: &str, program: &str) -> util::Report {
    let mut f = std::io::BufWriter::new(std::fs::File::create(out).expect("create trace file"));
    match program {
        "exhaustive-unary" => field::record_exhaustive_unary::<F>(cfg, &mut f),
        _ => field::record::<F>(cfg, seed, n, &mut f),
    }
}

macro_rules! with_limbs {
    ($n:expr, $func:ident ( $($arg:expr),* )) => {
        match $n { 1 => $func::<1>($($arg),*), 2 => $func::<2>($($arg),*), 3 => $func::<3>($($arg),*), 4 => $func::<4>($($arg),*),
                   6 => $func::<6>($($arg),*), 12 => $func::<12>($($arg),*), 13 => $func::<13>($($arg),*),
                   other => panic!("unsupported limb count {}", other) }
    };
}
fn replay_curve<D: curve::CurveDrv>(big: bool) -> util::Report {
    let stdin = std::io::stdin();
    curve::replay::<D>(util::tlc_transitions(BufReader::new(stdin.lock())), big)
}
fn record_curve<D: curve::CurveDrv>(cfg: &str, seed: u64, n: usize, profile: &str, out: &str) -> util::Report {
    let mut f = std::io::BufWriter::new(std::fs::File::create(out).expect("create trace file"));
    curve::record::<D>(cfg, seed, n, profile, &mut f)
}
fn replay_poly<F: poly::PF>(big: bool) -> util::Report {
    let stdin = std::io::stdin();
    poly::replay::<F>(util::tlc_transitions(BufReader::new(stdin.lock())), big)
}
fn replay_ser<D: curve::CurveDrv>(big: bool) -> util::Report {
    let stdin = std::io::stdin();
    ser::replay::<D>(util::tlc_transitions(BufReader::new(stdin.lock())), big)
}
fn replay_msm<D: curve::CurveDrv>(big: bool) -> util::Report where D::G: ark_ec::scalar_mul::variable_base::VariableBaseMSM {
    let stdin = std::io::stdin();
    msm::replay::<D>(util::tlc_transitions(BufReader::new(stdin.lock())), big)
}
fn replay_mle<F: poly::PF>(big: bool) -> util::Report {
    let stdin = std::io::stdin();
    mle::replay::<F>(util::tlc_transitions(BufReader::new(stdin.lock())), big)
}
fn literal_replay<T: ark_ff::MontConfig<N>, const N: usize>(cfg: &str, it: impl Iterator<Item = serde_json::Value>) -> util::Report {
    literal::replay::<T, N>(cfg, it)
}
fn replay_bigint<const N: usize>() -> util::Report {
    let stdin = std::io::stdin();
    bigint::replay::<N>(util::tlc_transitions(BufReader::new(stdin.lock())))
}
fn record_bigint<const N: usize>(seed: u64, n: usize, out: &str) -> util::Report {
    let mut f = std::io::BufWriter::new(std::fs::File::create(out).expect("create trace file"));
    bigint::record::<N>(seed, n, &mut f)
}

fn record_polybig<F: poly::PF>(cfg: &str, seed: u64, n: usize, maxlog: u32, out: &str) -> util::Report {
    let mut f = std::io::BufWriter::new(std::fs::File::create(out).expect("create trace file"));
    poly::record_big::<F>(cfg, seed, n, maxlog, &mut f)
}
fn main() {
    // panics in code under test are data: keep the default hook quiet
    std::panic::set_hook(Box::new(|_| {}));
    let args: Vec<String> = std::env::args().collect();
    // --threads t: run everything inside a rayon pool of exactly t threads (parallel build only)
    if let Some(t) = arg(&args, "--threads") {
        #[cfg(feature = "parallel")]
        {
            let t: usize = t.parse().expect("--threads <n>");
            let pool = rayon::ThreadPoolBuilder::new().num_threads(t).build().expect("thread pool");
            pool.install(|| { assert_eq!(rayon::current_num_threads(), t); real_main(args.clone()) });
            return;
        }
        #[cfg(not(feature = "parallel"))]
        { let _ = t; eprintln!("--threads needs the parallel build"); std::process::exit(2); }
    }
    real_main(args)
}

fn real_main(args: Vec<String>) {
    let cmd = args.get(1).map(|s| s.as_str()).unwrap_or("");
    let machine = args.get(2).map(|s| s.as_str()).unwrap_or("");
    let cfg = arg(&args, "--cfg").unwrap_or_default();
    let big = args.iter().any(|a| a == "--big");
    let rep = match (cmd, machine) {
        ("replay", "field") if !big => with_toy_field!(cfg.as_str(), replay_field(big)),
        ("replay", "field") => with_big_field!(cfg.as_str(), replay_field(big)),
        ("replay", "curve") if !big => with_toy_curve!(cfg.as_str(), replay_curve(big)),
        ("replay", "poly") if !big => with_toy_prime_field!(cfg.as_str(), replay_poly(big)),
        ("replay", "ser") if !big => with_toy_curve!(cfg.as_str(), replay_ser(big)),
        ("replay", "msm") if !big => with_toy_curve!(cfg.as_str(), replay_msm(big)),
        ("replay", "mle") if !big => with_toy_prime_field!(cfg.as_str(), replay_mle(big)),
        ("replay", "container") => { let stdin = std::io::stdin(); container::replay(util::tlc_transitions(BufReader::new(stdin.lock()))) }
        ("replay", "literal") => {
            let stdin = std::io::stdin();
            let it = util::tlc_transitions(BufReader::new(stdin.lock()));
            with_zoo_config!(cfg.as_str(), literal_replay(cfg.as_str(), it))
        }
        ("replay", "bigint") => { let nl: usize = cfg.parse().expect("--cfg <limbs>"); with_limbs!(nl, replay_bigint()) }
        ("record", "h2c") => {
            let seed: u64 = arg(&args, "--seed").and_then(|s| s.parse().ok()).unwrap_or(1);
            let n: usize = arg(&args, "--n").and_then(|s| s.parse().ok()).unwrap_or(100);
            let out = arg(&args, "--out").expect("--out");
            let mut f = std::io::BufWriter::new(std::fs::File::create(out).expect("create trace file"));
            match cfg.as_str() {
                "fields" => h2c::record_field_hashing(seed, n, &mut f),
                "bls12_381_g1" => h2c::record_wb::<ark_test_curves::bls12_381::g1::Config>("bls12_381_g1", seed, n, &mut f),
                "bls12_381_g2" => h2c::record_wb::<ark_test_curves::bls12_381::g2::Config>("bls12_381_g2", seed, n, &mut f),
                other => panic!("unknown h2c configuration {other}") }
        }
        ("record", "polybig") => {
            let seed: u64 = arg(&args, "--seed").and_then(|s| s.parse().ok()).unwrap_or(1);
            let n: usize = arg(&args, "--n").and_then(|s| s.parse().ok()).unwrap_or(60);
            let maxlog: u32 = arg(&args, "--maxlog").and_then(|s| s.parse().ok()).unwrap_or(11);
            let out = arg(&args, "--out").expect("--out");
            match cfg.as_str() {
                "bls12_381_fr" => record_polybig::<ark_test_curves::bls12_381::Fr>(cfg.as_str(), seed, n, maxlog, out.as_str()),
                "bn384_fq" => record_polybig::<ark_test_curves::bn384_small_two_adicity::Fq>(cfg.as_str(), seed, n, maxlog, out.as_str()),     // small subgroup 3^2: mixed radix
                "mnt4_753_fr" => record_polybig::<ark_test_curves::mnt4_753::Fr>(cfg.as_str(), seed, n, maxlog, out.as_str()),
                "secp256k1_fr" => record_polybig::<ark_test_curves::secp256k1::Fr>(cfg.as_str(), seed, n, maxlog, out.as_str()),                 // two-adicity 6, small subgroup 3
                "fp128_fq" => record_polybig::<ark_test_curves::fp128::Fq>(cfg.as_str(), seed, n, maxlog, out.as_str()),
                other => panic!("no full-size polynomial configuration {other}") }
        }
        ("record", "config") => {
            let seed: u64 = arg(&args, "--seed").and_then(|s| s.parse().ok()).unwrap_or(1);
            let out = arg(&args, "--out").expect("--out");
            let mut f = std::io::BufWriter::new(std::fs::File::create(out).expect("create trace file"));
            if cfg == "list" { println!("{}", serde_json::json!(vh_core::gen_config::GROUPS)); return; }
            let ev = vh_core::gen_config::dump_group(cfg.as_str(), seed).unwrap_or_else(|| panic!("unknown configuration group {cfg}"));
            vh_core::config::write_dump(cfg.as_str(), ev, &mut f)
        }
        ("record", "pairing") => {
            let seed: u64 = arg(&args, "--seed").and_then(|s| s.parse().ok()).unwrap_or(1);
            let n: usize = arg(&args, "--n").and_then(|s| s.parse().ok()).unwrap_or(200);
            let out = arg(&args, "--out").expect("--out");
            let mut f = std::io::BufWriter::new(std::fs::File::create(out).expect("create trace file"));
            match cfg.as_str() { "bls12_381" => pairing::record::<ark_test_curves::bls12_381::Bls12_381>("bls12_381", seed, n, &mut f), other => panic!("unknown engine {other}") }
        }
        ("record", "curve") => {
            let seed: u64 = arg(&args, "--seed").and_then(|s| s.parse().ok()).unwrap_or(1);
            let n: usize = arg(&args, "--n").and_then(|s| s.parse().ok()).unwrap_or(1000);
            let out = arg(&args, "--out").expect("--out");
            let profile = arg(&args, "--profile").unwrap_or_else(|| "group".to_string());
            with_big_curve!(cfg.as_str(), record_curve(cfg.as_str(), seed, n, profile.as_str(), out.as_str()))
        }
        ("record", "bigint") => {
            let nl: usize = cfg.parse().expect("--cfg <limbs>");
            let seed: u64 = arg(&args, "--seed").and_then(|s| s.parse().ok()).unwrap_or(1);
            let n: usize = arg(&args, "--n").and_then(|s| s.parse().ok()).unwrap_or(1000);
            let out = arg(&args, "--out").expect("--out");
            with_limbs!(nl, record_bigint(seed, n, out.as_str()))
        }
        ("record", "field") => {
            let seed: u64 = arg(&args, "--seed").and_then(|s| s.parse().ok()).unwrap_or(1);
            let n: usize = arg(&args, "--n").and_then(|s| s.parse().ok()).unwrap_or(1000);
            let out = arg(&args, "--out").expect("--out");
            let program = arg(&args, "--program").unwrap_or_default();
            if gen_toy::TOY_FIELD_IDS.contains(&cfg.trim_end_matches('h')) {
                with_toy_field!(cfg.as_str(), record_field(cfg.as_str(), seed, n, out.as_str(), program.as_str()))
            } else {
                with_big_field!(cfg.as_str(), record_field(cfg.as_str(), seed, n, out.as_str(), program.as_str()))
            }
        }
        _ => {
            eprintln!("usage: vh-core replay|record <machine> --cfg <id> ...");
            std::process::exit(2);
        }
    };
    let mut j = rep.to_json();
    j["cfg"] = json!(cfg);
    j["machine"] = json!(machine);
    println!("{}", j);
}
