#!/usr/bin/env python3
"""C16: generates the configuration dumpers
     harness/vh-core/src/gen_config.rs    (the modules of /repo/test-curves)
     harness/vh-curves/src/gen_config.rs  (every crate under /repo/curves)
from the SOURCE TEXT of the repository: every `#[derive(MontConfig)]` struct with its declared
attributes, every `pub type X = FpK<XConfig>` extension, every impl of SWCurveConfig / TECurveConfig /
GLVConfig / WBConfig / Bls12Config / BnConfig / BW6Config / MNT4Config / MNT6Config.  A configuration
added to the repository therefore shows up in the dump (and in the check) without touching /verif.
Each group (crate or test-curves module) becomes one trace validated by spec/trace/Trace_Config.tla."""
import re, os, sys, json, glob

ATTR = re.compile(r'#\[(modulus|generator|small_subgroup_base|small_subgroup_power)\s*=\s*"([^"]+)"\]')
MONT = re.compile(r'#\[derive\([^)]*MontConfig[^)]*\)\]((?:\s*#\[[^\]]+\])+)\s*pub struct (\w+);')
PTYPE = re.compile(r'pub type (\w+) = Fp\d+<\s*MontBackend<\s*(\w+),\s*(\d+)\s*>\s*>;')
ETYPE = re.compile(r'pub type (\w+) = Fp(2|3|4|6|12)<(\w+)>;')
IMPL = re.compile(r'^\s*impl(?:<[^>]*>)?\s+(?:\w+::)*(SWCurveConfig|TECurveConfig|GLVConfig|WBConfig|MontCurveConfig|Elligator2Config|Bls12Config|BnConfig|BW6Config|MNT4Config|MNT6Config)\s+for\s+(\w+)', re.M)

def resolve(srcdir, root_path, parts):
    """Public path of the module srcdir/parts...: a segment declared `pub mod x` stays, a private module
    whose items are re-exported with `pub use x::*` is dropped."""
    path = [root_path]; d = srcdir
    for seg in parts:
        decl = ""
        for f in ("mod.rs", "lib.rs"):
            if os.path.exists(d + "/" + f): decl = open(d + "/" + f).read(); break
        if re.search(r"pub mod %s\b" % seg, decl): path.append(seg)
        elif not re.search(r"pub use (self::)?%s::" % seg, decl) and os.path.isfile(d + "/" + seg + ".rs"): return None   # private, not re-exported
        d = d + "/" + seg
    return "::".join(path)

def strip_tests(src):
    m = re.search(r"#\[cfg\(test\)\]\s*mod \w+\s*\{", src)      # an inline test module at the end of the file
    return src if not m else src[:m.start()]

def scan(srcdir, root_path, flat):
    """-> list of (kind, rust path / data).  flat: items are re-exported at the crate root (curve crates);
    otherwise the module path follows the file path (test-curves)."""
    items = []
    for f in sorted(glob.glob(srcdir + "/**/*.rs", recursive=True)):
        rel = os.path.relpath(f, srcdir)
        if "constraints" in rel or rel.endswith("tests.rs") or "/tests/" in rel: continue
        src = strip_tests(open(f).read())
        parts = rel[:-3].split("/")
        if parts[-1] in ("mod", "lib"): parts = parts[:-1]
        modpath = resolve(srcdir, root_path, parts)
        # fields are always glob re-exported up to the root of the crate / test-curves module
        fieldpath = root_path
        # prime fields
        for m in MONT.finditer(src):
            attrs = dict(ATTR.findall(m.group(1))); cfg = m.group(2)
            t = [x for x in PTYPE.finditer(src) if x.group(2) == cfg]
            if not t or "modulus" not in attrs: continue
            n = int(t[0].group(3))
            items.append(("fp", {"cfg": cfg, "ty": t[0].group(1), "n": n, "attrs": attrs, "mod": fieldpath, "file": rel}))
        # extensions
        for m in ETYPE.finditer(src):
            ty, k, cfg = m.groups()
            kind = {"2": "fp2", "3": "fp3", "4": "fp4", "12": "fp12"}.get(k)
            if k == "6": kind = "fp6_2over3" if "fp6_2over3" in src or "Fp3" in src or "Fq3" in src else "fp6_3over2"
            items.append(("ext", {"cfg": cfg, "ty": ty, "kind": kind, "mod": fieldpath, "file": rel}))
        for m in IMPL.finditer(src):
            if modpath is None: continue       # reachable only through an associated type (isogenous curves of WB configurations)
            items.append((m.group(1), {"cfg": m.group(2), "mod": modpath, "file": rel}))
    return items

def rust_for(group, items, crate_root, flat):
    """Rust statements pushing the events of one group."""
    out = []
    def P(it):   # path of a configuration struct
        if it["mod"].count("::") == 0: return "%s::%s" % (it["mod"], it["cfg"])
        return "%s::%s" % (it["mod"], it["cfg"])
    seen = set()
    for kind, it in items:
        name = "%s:%s" % (it["file"], it["cfg"])
        if (kind, name) in seen: continue
        seen.add((kind, name))
        label = '"%s/%s"' % (group, name)
        p = P(it)
        if kind == "fp":
            a = it["attrs"]
            small = "Some((%s, %s))" % (a["small_subgroup_base"], a["small_subgroup_power"]) if "small_subgroup_base" in a else "None"
            out.append('v.push(config::with_decl(config::dump_fp::<%s, %d>(%s), &config::Decl { modulus: "%s", generator: "%s", small: %s }));'
                       % (p, it["n"], label, a["modulus"], a["generator"], small))
        elif kind == "ext":
            out.append('v.push(config::dump_%s::<%s>(%s));' % (it["kind"], p, label))
        elif kind == "SWCurveConfig":
            out.append('v.push(config::dump_curve_pts::<curve::SWDrv<%s>>(%s, seed));' % (p, label))
        elif kind == "TECurveConfig":
            out.append('v.push(config::dump_curve_pts::<curve::TEDrv<%s>>(%s, seed));' % (p, label))
        elif kind == "GLVConfig":
            out.append('v.push(config::dump_glv_pts::<%s>(%s, seed));' % (p, label))
        elif kind == "MontCurveConfig":
            out.append('v.push(config::dump_mont::<%s>(%s));' % (p, label))
        elif kind == "Elligator2Config":
            out.append('v.push(config::dump_ell2::<%s>(%s));' % (p, label))
        elif kind == "WBConfig":
            out.append('v.push(config::dump_wb_pts::<%s>(%s, seed));' % (p, label))
            out.append('v.push(config::dump_curve_pts::<curve::SWDrv<<%s as ark_ec::hashing::curve_maps::wb::WBConfig>::IsogenousCurve>>("%s/%s:IsogenousCurve", seed));' % (p, group, name))
        else:
            fn = {"Bls12Config": "dump_bls12", "BnConfig": "dump_bn", "BW6Config": "dump_bw6", "MNT4Config": "dump_mnt4", "MNT6Config": "dump_mnt6"}[kind]
            out.append('v.push(config::%s::<%s>(%s));' % (fn, p, label))
    return out

def emit(path, groups, uses):
    L = ["// @generated by /verif/lib/gen_config.py -- do not edit", "#![allow(unused_imports)]"] + uses + ["use serde_json::Value;", ""]
    L.append("pub const GROUPS: &[&str] = &[%s];" % ", ".join('"%s"' % g for g, _ in groups))
    L.append("pub fn dump_group(group: &str, seed: u64) -> Option<Vec<Value>> {")
    L.append("    let mut v: Vec<Value> = Vec::new();")
    L.append("    match group {")
    for g, stmts in groups:
        L.append('        "%s" => {' % g)
        for s in stmts: L.append("            " + s)
        L.append("        }")
    L.append("        _ => return None,")
    L.append("    }")
    L.append("    Some(v)")
    L.append("}")
    new = "\n".join(L) + "\n"
    if not os.path.exists(path) or open(path).read() != new: open(path, "w").write(new)

def main():
    V = "/verif/harness"
    # test-curves: one group per module
    tc = "/repo/test-curves/src"
    groups = []
    for mod in sorted(os.listdir(tc)):
        if mod in ("lib.rs", "testdata"): continue
        if mod.endswith(".rs"):
            items = [(k, dict(it, mod="ark_test_curves::" + mod[:-3], file=mod)) for k, it in scan_file(tc + "/" + mod)]
        else:
            items = scan(tc + "/" + mod, "ark_test_curves::" + mod, False)
        groups.append(("t_" + mod.replace(".rs", ""), rust_for("test-curves/" + mod.replace(".rs", ""), items, None, False)))
    emit(V + "/vh-core/src/gen_config.rs", groups, ["use crate::{config, curve};"])
    n1 = sum(len(s) for _, s in groups)
    # curve crates
    groups = []
    for crate in sorted(os.listdir("/repo/curves")):
        d = "/repo/curves/%s/src" % crate
        if not os.path.isdir(d) or crate in ("curve-constraint-tests", "scripts"): continue
        items = scan(d, "ark_" + crate, True)
        fixed = items
        if fixed: groups.append(("c_" + crate, rust_for(crate, fixed, None, True)))
    emit(V + "/vh-curves/src/gen_config.rs", groups, ["use vh_core::{config, curve};"])
    n2 = sum(len(s) for _, s in groups)
    print("gen_config: %d test-curves items, %d curve-crate items in %d groups" % (n1, n2, len(groups)))

def scan_file(f):
    d = os.path.dirname(f)
    src = strip_tests(open(f).read())
    items = []
    for m in MONT.finditer(src):
        attrs = dict(ATTR.findall(m.group(1))); cfg = m.group(2)
        t = [x for x in PTYPE.finditer(src) if x.group(2) == cfg]
        if t and "modulus" in attrs:
            items.append(("fp", {"cfg": cfg, "ty": t[0].group(1), "n": int(t[0].group(3)), "attrs": attrs}))
    return items

if __name__ == "__main__":
    main()
