#!/usr/bin/env python3
"""Builds /verif/spec/toy/catalogue.json: the toy configurations (single source for the TLC
models and for the generated Rust configs).  Primary parameters are chosen here; derived
constants (generators, Frobenius tables, sqrt constants, group orders) are computed with plain
Python and re-derived by TLC in spec/mc/MC_Catalogue before any check relies on them."""
import json, sys, os
sys.path.insert(0, os.path.dirname(__file__))
from pyfield import *

PRIMES = [3, 5, 7, 11, 13, 17, 19, 23, 29, 31, 37, 43, 61, 97, 101, 127, 193, 251, 257, 577,
          12289, 18433, 40961]

fields = {}

def two_adicity(n):
    s = 0
    while n % 2 == 0:
        n //= 2; s += 1
    return s, n

def add_prime(p):
    assert is_prime(p) and p < 46341
    g = primitive_root(p)
    s, t = two_adicity(p - 1)
    e = {"p": p, "lv": [], "kind": "fp", "gen": g, "two_adicity": s, "two_adic_root": pow(g, t, p),
         "bits": p.bit_length(), "alpha": "all"}
    # optional small subgroup (mixed radix): largest odd prime-power factor base 3 or 5
    for b in (3, 5):
        k = 0; m = t
        while m % b == 0:
            m //= b; k += 1
        if k > 0:
            e["small_subgroup_base"] = b
            e["small_subgroup_power"] = k
            e["large_subgroup_root"] = pow(g, (p - 1) // (2 ** s * b ** k), p)
            break
    fields["f%d" % p] = e

for p in PRIMES: add_prime(p)

def tower_of(fid):
    e = fields[fid]
    return Tower(e["p"], e["lv"])

def add_ext(fid, base, kind, deg, nr, alpha="all"):
    b = fields[base]
    lv = b["lv"] + [{"deg": deg, "nr": nr}]
    T = Tower(b["p"], lv)
    k = len(lv)
    p = b["p"]
    # the binomial must be irreducible
    if deg == 2: assert not T.is_square(k - 1, nr), (fid, "nr is a square")
    if deg == 3: assert not T.is_cube(k - 1, nr), (fid, "nr is a cube")
    e = {"p": p, "lv": lv, "kind": kind, "base": base, "alpha": alpha}
    if kind == "fp2":
        e["frob_c1"] = [T.pow(0, nr, (p ** i - 1) // 2) for i in range(2)]
    elif kind == "fp3":
        e["frob_c1"] = [T.pow(0, nr, (p ** i - 1) // 3) for i in range(3)]
        e["frob_c2"] = [T.pow(0, nr, 2 * (p ** i - 1) // 3) for i in range(3)]
        s, t = two_adicity(p ** 3 - 1)
        e["two_adicity"] = s
        e["trace_minus_one_div_two"] = (t - 1) // 2
        qnr = next(x for x in T.elems(1) if not T.is_square(1, x))
        e["qnr"] = qnr
        e["qnr_to_t"] = T.pow(1, qnr, t)
    elif kind == "fp4":
        assert nr == [0, 1]
        beta = b["lv"][0]["nr"]
        assert all((p ** i - 1) % 4 == 0 for i in range(4))
        e["frob_c1"] = [T.pow(0, beta, (p ** i - 1) // 4) for i in range(4)]
    elif kind == "fp6_3over2":
        e["frob_c1"] = [T.pow(1, nr, (p ** i - 1) // 3) for i in range(6)]
        e["frob_c2"] = [T.pow(1, nr, 2 * (p ** i - 1) // 3) for i in range(6)]
    elif kind == "fp6_2over3":
        assert nr == [0, 1, 0]
        beta = b["lv"][0]["nr"]
        assert all((p ** i - 1) % 6 == 0 for i in range(6))
        e["frob_c1"] = [T.pow(0, beta, (p ** i - 1) // 6) for i in range(6)]
    elif kind == "fp12":
        assert nr == [[0, 0], [1, 0], [0, 0]]
        xi = b["lv"][1]["nr"]
        e["frob_c1"] = [T.pow(1, xi, (p ** i - 1) // 6) for i in range(12)]
    fields[fid] = e

add_ext("f3_2", "f3", "fp2", 2, 2)
add_ext("f7_2", "f7", "fp2", 2, 6)
add_ext("f11_2", "f11", "fp2", 2, 10)
add_ext("f19_2", "f19", "fp2", 2, 18)
add_ext("f5_2", "f5", "fp2", 2, 2)
add_ext("f13_2", "f13", "fp2", 2, 2)
add_ext("f17_2", "f17", "fp2", 2, 3)
add_ext("f7_3", "f7", "fp3", 3, 3)
add_ext("f13_3", "f13", "fp3", 3, 2, alpha="sparse")
add_ext("f19_3", "f19", "fp3", 3, 2, alpha="sparse")
add_ext("f5_4", "f5_2", "fp4", 2, [0, 1])
add_ext("f13_4", "f13_2", "fp4", 2, [0, 1], alpha="sparse")
# xi for the sextic twist towers: neither a square nor a cube in Fp2
def find_xi(base):
    T = tower_of(base)
    for x in T.elems(1):
        if x[1] != 0 and not T.is_square(1, x) and not T.is_cube(1, x):
            return x
add_ext("f7_6", "f7_2", "fp6_3over2", 3, find_xi("f7_2"), alpha="sparse")
add_ext("f13_6", "f13_2", "fp6_3over2", 3, find_xi("f13_2"), alpha="sparse")
add_ext("f7_6b", "f7_3", "fp6_2over3", 2, [0, 1, 0], alpha="sparse")
add_ext("f13_6b", "f13_3", "fp6_2over3", 2, [0, 1, 0], alpha="sparse")
add_ext("f7_12", "f7_6", "fp12", 2, [[0, 0], [1, 0], [0, 0]], alpha="sparse")
add_ext("f13_12", "f13_6", "fp12", 2, [[0, 0], [1, 0], [0, 0]], alpha="sparse")

cat = {"fields": fields}

if __name__ == "__main__":
    out = "/verif/spec/toy/catalogue.json"
    extra = {}
    if os.path.exists(os.path.join(os.path.dirname(__file__), "mkcurves.py")):
        import mkcurves
        extra = mkcurves.build(fields)
    cat.update(extra)
    json.dump(cat, open(out, "w"), indent=1, sort_keys=True)
    print("wrote", out, len(fields), "fields", {k: len(v) for k, v in extra.items()})
