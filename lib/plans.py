"""Per-property check plans: which TLC models / trace validations make up the quick and the
thorough tier of each property."""
from checklib import *

def A_field(b, cfg, mode, hcfg=None, workers=4):
    return lambda: toy_replay(b, "field", "MC_Field", cfg, mode, harness_cfg=hcfg, workers=workers)
def B_field(b, cfg, seed, n, timeout=900):
    bb = b.replace("vh-core", "vh-curves") if cfg.startswith("c_") else b
    return lambda: trace_validate(bb, "field", "Trace_Field", cfg, seed, n, timeout=timeout)
def B_field_exh(b, cfg, timeout=1200):
    return lambda: trace_validate(b, "field", "Trace_Field", cfg, 0, 0, timeout=timeout, rec_args=["--program", "exhaustive-unary"],
                                  label="B:field:%s:exhaustive-unary" % cfg)

ZOO_QUICK = ["z1a", "z1ah", "z2b", "z2bh", "z4a", "z4ah", "z4dh", "z6c", "z6ch", "z13a", "z13ah",
             "m127", "m127h", "c25519", "c25519h", "g64h"]
SHIPPED_PRIME = ["bls12_381_fq", "bls12_381_fr", "mnt4_753_fq", "mnt4_753_fr", "bn384_fq", "bn384_fr",
                 "secp256k1_fq", "secp256k1_fr", "ed_on_bls12_381_fr", "fp128_fq"]

def zoo_all():
    import json
    ids = []
    for z in json.load(open(V + "/spec/toy/zoo.json")):
        ids += [z["id"], z["id"] + "h"]
    return ids

# the x86-64 assembly backend of ark-ff (feature asm; multiplication and squaring for 2..6 limbs when the no-carry optimisation
# applies): the harness is built a third time with it and the same traces are judged by the same specification
ASM_FIELDS = ["bls12_381_fq", "bls12_381_fr", "secp256k1_fq", "secp256k1_fr", "bn384_fq", "ed_on_bls12_381_fr", "fp128_fq", "z2b", "z4a", "z6c", "c25519", "m127"]
def asm_jobs(seed, n, cfgs, timeout=1200):
    import platform
    if platform.machine() != "x86_64" or not all(f in open("/proc/cpuinfo").read() for f in (" adx", " bmi2")): return []
    ba = build(features=("asm",), target="target-asm")
    return [(lambda c=c: trace_validate(ba, "field", "Trace_Field", c, seed + 20, n, timeout=timeout, label="B:field:%s:asm:seed%d:n%d" % (c, seed + 20, n))) for c in cfgs]
def fullzoo_bin():
    """most moduli of the zoo are only compiled with the fullzoo feature (compile time): the thorough tiers that walk the whole zoo use their own build"""
    return build(features=("fullzoo",), target="target-fullzoo")
def plan_C01(b, tier, seed):
    t = []
    if tier == "quick":
        for p in (7, 13, 31):
            t += [A_field(b, "f%d" % p, "arith"), A_field(b, "f%d" % p, "arith", "f%dh" % p)]
        for p in (251, 257):
            t += [A_field(b, "f%d" % p, "unary"), A_field(b, "f%d" % p, "unary", "f%dh" % p)]
        t += [B_field_exh(b, "f12289"), B_field_exh(b, "f12289h")]
        t += [A_field(b, "f13", "conv"), A_field(b, "f251", "conv", "f251h"), A_field(b, "f257", "conv")]
        for c in ["bls12_381_fq", "bls12_381_fr", "mnt4_753_fq", "secp256k1_fq", "fp128_fq"] + ZOO_QUICK:
            t.append(B_field(b, c, seed, 1500))
        t += asm_jobs(seed, 1500, ASM_FIELDS)
    else:
        primes = [3, 5, 7, 11, 13, 17, 19, 23, 29, 31, 37, 43, 61]
        for p in primes:
            t += [A_field(b, "f%d" % p, "arith"), A_field(b, "f%d" % p, "arith", "f%dh" % p)]
        for p in primes + [97, 101, 127, 193, 251, 257, 577]:
            t += [A_field(b, "f%d" % p, "unary"), A_field(b, "f%d" % p, "unary", "f%dh" % p)]
        for p in (12289, 18433, 40961):
            t += [B_field_exh(b, "f%d" % p), B_field_exh(b, "f%dh" % p)]
        for p in (3, 13, 127, 251, 257, 12289):
            t += [A_field(b, "f%d" % p, "conv"), A_field(b, "f%d" % p, "conv", "f%dh" % p)]
        bz = fullzoo_bin()
        for c in SHIPPED_PRIME + zoo_all():
            for s in (seed, seed + 1):
                t.append(B_field(bz, c, s, 12000, timeout=1800))
        t += asm_jobs(seed, 12000, ASM_FIELDS + ["bls12_381_fq2", "bls12_381_fq12"], 2400)
    return t

def plan_C02(b, tier, seed):
    t = []
    if tier == "quick":
        t += [A_field(b, "f3_2", "arith"), A_field(b, "f7_2", "arith"), A_field(b, "f5_2", "arith")]
        t += [A_field(b, c, "unary") for c in ("f7_2", "f13_2", "f7_3", "f5_4")]
        t += [A_field(b, c, "arith", workers=6) for c in ("f7_6", "f7_6b", "f7_12")]
        t += [A_field(b, c, "conv") for c in ("f7_2", "f7_3", "f5_4", "f7_6", "f7_6b", "f7_12")]
        t += [A_field(b, c, "tower", workers=6) for c in ("f7_2", "f13_2", "f7_3", "f5_4", "f7_6", "f7_6b", "f13_6b", "f7_12")]
        t += [B_field(b, "bls12_381_fq2", seed, 1500), B_field(b, "bls12_381_fq6", seed, 600),
              B_field(b, "bls12_381_fq12", seed, 250), B_field(b, "mnt6_753_fq3", seed, 800),
              B_field(b, "c_bls12_377_fq12", seed, 200), B_field(b, "c_bn254_fq12", seed, 200), B_field(b, "c_mnt4_298_fq4", seed, 500),
              B_field(b, "c_mnt6_298_fq6", seed, 400), B_field(b, "c_bw6_761_fq6", seed, 300)]
    else:
        for c in ("f3_2", "f7_2", "f11_2", "f5_2", "f13_2", "f17_2", "f19_2"):
            t += [A_field(b, c, "arith", workers=6), A_field(b, c, "unary"), A_field(b, c, "conv")]
        for c in ("f7_3", "f5_4"):
            t += [A_field(b, c, "arith", workers=8), A_field(b, c, "unary"), A_field(b, c, "conv")]
        t += [A_field(b, c, "tower", workers=8) for c in ("f3_2", "f7_2", "f11_2", "f5_2", "f13_2", "f17_2", "f19_2", "f7_3", "f13_3", "f19_3", "f5_4", "f13_4", "f7_6", "f13_6", "f7_6b", "f13_6b", "f7_12", "f13_12")]
        for c in ("f13_3", "f19_3", "f13_4", "f7_6", "f13_6", "f7_6b", "f13_6b", "f7_12", "f13_12"):
            t += [A_field(b, c, "arith", workers=8), A_field(b, c, "unary", workers=8), A_field(b, c, "conv")]
        for s in (seed, seed + 1):
            t += [B_field(b, "bls12_381_fq2", s, 12000, 1800), B_field(b, "bls12_381_fq6", s, 4000, 1800),
                  B_field(b, "bls12_381_fq12", s, 1500, 1800), B_field(b, "mnt6_753_fq3", s, 6000, 1800)]
            t += [B_field(b, c, s, 1500, 2400) for c in ("c_bls12_377_fq2", "c_bls12_377_fq6", "c_bls12_377_fq12", "c_bn254_fq2", "c_bn254_fq6", "c_bn254_fq12",
                  "c_mnt4_298_fq2", "c_mnt4_298_fq4", "c_mnt6_298_fq3", "c_mnt6_298_fq6", "c_mnt4_753_fq4", "c_mnt6_753_fq6", "c_bw6_761_fq3", "c_bw6_761_fq6",
                  "c_bw6_767_fq6", "c_cp6_782_fq6", "c_bls12_381_fq12")]
    return t

def A_bigint(b, nl, mode, workers=4):
    return lambda: toy_replay(b, "bigint", "MC_BigInt", str(nl), mode, workers=workers, env_extra={"NL": str(nl)},
                              label="A:bigint:N%d:%s" % (nl, mode))
def B_bigint(b, nl, seed, n):
    return lambda: trace_validate(b, "bigint", "Trace_BigInt", str(nl), seed, n, label="B:bigint:N%d:seed%d:n%d" % (nl, seed, n))

def plan_C15(b, tier, seed):
    t = []
    if tier == "quick":
        t += [A_bigint(b, 1, "arith"), A_bigint(b, 1, "unary"), A_bigint(b, 2, "arith"), A_bigint(b, 2, "unary"),
              A_bigint(b, 4, "unary"), A_bigint(b, 13, "unary")]
        t += [B_bigint(b, nl, seed, 3000) for nl in (1, 2, 3, 4, 6, 12, 13)]
    else:
        for nl in (1, 2, 3, 4, 6, 12, 13):
            t += [A_bigint(b, nl, "arith", workers=8), A_bigint(b, nl, "unary", workers=8)]
            t += [B_bigint(b, nl, seed + k, 30000) for k in range(3)]
    return t

def A_curve(b, cfg, mode, workers=4):
    return lambda: toy_replay(b, "curve", "MC_Curve", cfg, mode, workers=workers)

def B_curve(b, cfg, seed, n, profile, timeout=1200):
    if cfg.startswith("c_"): b = b.replace("vh-core", "vh-curves")
    return lambda: trace_validate(b, "curve", "Trace_Curve", cfg, seed, n, timeout=timeout, rec_args=["--profile", profile],
                                  label="B:curve:%s:%s:seed%d:n%d" % (cfg, profile, seed, n))
CURVE_CRATE_CURVES = ['c_bn254_g1', 'c_bn254_g2', 'c_pallas', 'c_ed_on_cp6_782', 'c_secp384r1', 'c_secp256r1', 'c_bls12_377_g1', 'c_bls12_377_g1_te', 'c_bls12_377_g2', 'c_ed_on_bls12_381_bandersnatch_te', 'c_ed_on_bls12_381_bandersnatch_sw', 'c_cp6_782_g1', 'c_cp6_782_g2', 'c_bw6_761_g1', 'c_bw6_761_g2', 'c_curve25519', 'c_ed_on_mnt4_753', 'c_secq256k1', 'c_ed_on_mnt4_298', 'c_grumpkin', 'c_mnt6_298_g1', 'c_mnt6_298_g2', 'c_mnt4_298_g1', 'c_mnt4_298_g2', 'c_bw6_767_g1', 'c_bw6_767_g2', 'c_vesta', 'c_secp256k1', 'c_ed_on_bn254', 'c_mnt4_753_g1', 'c_mnt4_753_g2', 'c_ed_on_bls12_377', 'c_mnt6_753_g1', 'c_mnt6_753_g2', 'c_bls12_381_g1', 'c_bls12_381_g2', 'c_ed25519', 'c_ed_on_bls12_381_te', 'c_ed_on_bls12_381_sw']
BIG_CURVES = ["bls12_381_g1", "bls12_381_g2", "secp256k1", "mnt4_753_g1", "bn384_g1", "ed_on_bls12_381"]

SW_TOY = ["sw13_0_2", "sw19_0_2", "sw31_0_3", "sw13_0_4", "sw19_0_8", "sw13_1_6", "sw17_1_3", "sw13_1_4", "sw13_1_0",
          "sw31_1_29", "sw23_1_16", "sw23_1_4"]
SW_EXT = ["sw_f7_2_a0", "sw_f7_2_a1", "sw_f13_2_a0", "sw_f7_3_a0"]
TE_TOY = ["te13_1_7", "te13_12_6", "te17_16_6", "te29_1_3", "te29_28_2", "te29_1_2", "te31_1_6", "te13_2_4", "te29_2_3"]

def plan_C03(b, tier, seed):
    t = []
    if tier == "quick":
        for c in ["sw13_0_2", "sw13_1_0", "sw13_1_4", "sw19_0_8", "sw23_1_16", "sw_f7_2_a0", "te13_1_7", "te13_12_6", "te29_1_2", "te13_2_4"]:
            t += [A_curve(b, c, "arith"), A_curve(b, c, "group")]
        t += [A_curve(b, "sw_f7_3_a0", "group")]
        t += [B_curve(b, c, seed, 800, "group") for c in BIG_CURVES]
    else:
        for c in SW_TOY + TE_TOY + ["sw_f7_2_a0", "sw_f7_2_a1"]:
            t += [A_curve(b, c, "arith", workers=6), A_curve(b, c, "group")]
        t += [A_curve(b, "sw_f13_2_a0", "arith", workers=8), A_curve(b, "sw_f13_2_a0", "group"), A_curve(b, "sw_f7_3_a0", "group")]
        t += [B_curve(b, c, seed + k, 6000, "group", 2400) for c in BIG_CURVES for k in range(2)]
    return t

# every configuration that ships GLV parameters (decomposition relation, endomorphism-accelerated multiplication on the subgroup)
GLV_CURVES = ["bls12_381_g1", "c_bls12_381_g1", "c_bls12_381_g2", "c_bls12_377_g1", "c_bls12_377_g2", "c_bn254_g1", "c_bn254_g2", "c_bw6_761_g1", "c_bw6_761_g2", "c_pallas", "c_vesta"]
def plan_C04(b, tier, seed):
    t = []
    cs = ["sw13_0_2", "sw13_1_0", "sw19_0_8", "sw31_1_29", "sw_f7_2_a0", "te13_1_7", "te29_1_2", "te13_2_4"] if tier == "quick" else SW_TOY + TE_TOY + SW_EXT
    t += [A_curve(b, c, "mul") for c in cs]
    if tier == "quick":
        t += [B_curve(b, c, seed, 150, "mul") for c in BIG_CURVES]
        t += [B_curve(b, c, seed, 80, "mul") for c in ("c_bn254_g1", "c_bls12_377_g1", "c_bls12_381_g1", "c_pallas", "c_vesta", "c_secp256k1", "c_bw6_761_g1", "c_ed_on_bls12_381_bandersnatch_te")]
        t += [B_curve(b, c, seed, 140, "aux") for c in GLV_CURVES]
        # fixed-base batch multiplication for 1..1025 scalars with fresh and mis-sized tables (batch_mul events of the msm profile)
        t += [B_curve(b, c, seed + 5, 45, "msm") for c in ("bls12_381_g1", "ed_on_bls12_381", "secp256k1")]
    else:
        t += [B_curve(b, c, seed + 5 + k, 300, "msm", 3000) for c in BIG_CURVES for k in range(2)]
        t += [B_curve(b, c, seed + k, 900, "aux", 3000) for c in GLV_CURVES for k in range(2)]
        t += [B_curve(b, c, seed + k, 1500, "mul", 3000) for c in BIG_CURVES for k in range(2)]
        t += [B_curve(b, c, seed, 400, "mul", 3000) for c in CURVE_CRATE_CURVES]
    return t

def plan_C12(b, tier, seed):
    cs = ["sw13_0_4", "sw13_1_0", "sw13_1_4", "sw19_0_8", "sw31_1_29", "sw23_1_16", "sw_f7_2_a0", "te13_1_7", "te29_1_2", "te13_2_4"] if tier == "quick" else SW_TOY + TE_TOY + SW_EXT
    t = [A_curve(b, c, "subgroup") for c in cs]
    if tier == "quick":
        t += [B_curve(b, c, seed, 250, "subgroup") for c in BIG_CURVES]
        t += [B_curve(b, c, seed, 120, "subgroup") for c in ("c_bls12_381_g1", "c_bls12_381_g2", "c_bls12_377_g1", "c_bls12_377_g2", "c_bn254_g2", "c_bw6_761_g1",
                                                             "c_ed_on_bls12_381_te", "c_ed_on_bls12_381_bandersnatch_te", "c_curve25519")]
        # random sampling only yields subgroup points (rand events of the aux profile)
        t += [B_curve(b, c, seed + 3, 100, "aux") for c in BIG_CURVES + ["c_bls12_377_g2", "c_bn254_g2", "c_ed_on_bls12_381_bandersnatch_te", "c_curve25519", "c_mnt6_298_g2"]]
    else:
        t += [B_curve(b, c, seed, 600, "subgroup", 3000) for c in CURVE_CRATE_CURVES]
        t += [B_curve(b, c, seed + 3, 400, "aux", 3000) for c in BIG_CURVES + CURVE_CRATE_CURVES]
        t += [B_curve(b, c, seed + k, 2500, "subgroup", 3000) for c in BIG_CURVES for k in range(2)]
    return t

def A_poly(b, cfg, mode, deg, maxn, workers=4):
    return lambda: toy_replay(b, "poly", "MC_Poly", cfg, mode, workers=workers, env_extra={"DEG": str(deg), "MAXN": str(maxn)},
                              label="A:poly:%s:%s:deg%d:maxn%d" % (cfg, mode, deg, maxn))

def B_polybig(b, cfg, seed, n, maxlog, threads=None, timeout=1500):
    return lambda: trace_validate(b, "polybig", "Trace_Poly", cfg, seed, n, timeout=timeout, rec_args=["--maxlog", str(maxlog)], threads=threads,
                                  label="B:polybig:%s:seed%d:n%d:maxlog%d%s" % (cfg, seed, n, maxlog, (":threads%d" % threads) if threads else ""))
def plan_C08(b, tier, seed):
    if tier == "quick":
        return [A_poly(b, "f5", "arith", 3, 4, 6), A_poly(b, "f5", "unary", 4, 4), A_poly(b, "f17", "unary", 2, 8), A_poly(b, "f13", "unary", 3, 4),
                A_poly(b, "f7", "unary", 3, 6), A_poly(b, "f7", "arith", 2, 4, 6), A_poly(b, "f12289", "polybig", 0, 130, 8),
                B_polybig(b, "bls12_381_fr", seed + 100, 60, 11), B_polybig(b, "bn384_fq", seed + 100, 40, 10)]
    return [A_poly(b, "f5", "arith", 4, 4, 8), A_poly(b, "f7", "arith", 3, 4, 8), A_poly(b, "f17", "arith", 2, 4, 8), A_poly(b, "f97", "arith", 1, 4, 8),
            A_poly(b, "f5", "unary", 5, 4), A_poly(b, "f17", "unary", 3, 16, 8), A_poly(b, "f97", "unary", 2, 12, 8), A_poly(b, "f13", "unary", 4, 4),
            A_poly(b, "f7", "unary", 4, 6), A_poly(b, "f37", "unary", 2, 12, 8), A_poly(b, "f12289", "polybig", 0, 1030, 8), A_poly(b, "f40961", "polybig", 0, 300, 8)] + \
           [B_polybig(b, c, seed + 100 + k, n, ml, timeout=3000) for (c, n, ml) in (("bls12_381_fr", 250, 13), ("bn384_fq", 200, 12), ("mnt4_753_fr", 60, 11), ("secp256k1_fr", 250, 13)) for k in range(2)]

def plan_C07(b, tier, seed):
    if tier == "quick":
        return [A_poly(b, "f17", "domain", 0, 16), A_poly(b, "f97", "domain", 0, 16), A_poly(b, "f13", "domain", 0, 12), A_poly(b, "f37", "domain", 0, 12),
                A_poly(b, "f257", "domain", 0, 32, 8), A_poly(b, "f101", "domain", 0, 25),
                B_polybig(b, "bls12_381_fr", seed, 70, 12), B_polybig(b, "bn384_fq", seed, 50, 10), B_polybig(b, "secp256k1_fr", seed, 40, 8), B_polybig(b, "fp128_fq", seed, 40, 11)]
    return [A_poly(b, c, "domain", 0, n, 8) for (c, n) in [("f17", 16), ("f97", 48), ("f13", 12), ("f37", 36), ("f257", 64), ("f101", 50),
                                                            ("f193", 64), ("f577", 64), ("f12289", 64), ("f18433", 48), ("f40961", 40)]] + \
           [B_polybig(b, c, seed + k, n, ml, timeout=3000) for (c, n, ml) in (("bls12_381_fr", 250, 13), ("bn384_fq", 200, 12), ("mnt4_753_fr", 60, 11), ("secp256k1_fr", 250, 13), ("fp128_fq", 250, 13)) for k in range(2)]

def plan_C11(b, tier, seed):
    t = []
    if tier == "quick":
        for c in ("f7", "f11", "f31", "f13", "f17", "f97", "f193", "f257", "f7_2", "f5_2", "f13_2", "f7_3", "f5_4", "f7_6b"):
            t.append(A_field(b, c, "unary"))
        t += [A_field(b, "f257", "unary", "f257h"), B_field_exh(b, "f12289"), B_field_exh(b, "f40961")]
        for c in ("bls12_381_fq", "bls12_381_fr", "bls12_381_fq2", "mnt6_753_fq3", "mnt4_753_fq", "secp256k1_fq", "z1a", "g64h", "m127h", "t40", "t47h", "t70"):
            t.append(B_field(b, c, seed + 7, 1200))
        # coordinate recovery helpers: both roots in lexicographic order, or none (recover / from_coord events of the aux profile)
        t += [B_curve(b, c, seed + 7, 150, "aux") for c in BIG_CURVES]
    else:
        for c in ("f3", "f7", "f11", "f19", "f23", "f31", "f43", "f5", "f13", "f17", "f29", "f37", "f61", "f97", "f101", "f193", "f257", "f577",
                  "f3_2", "f7_2", "f11_2", "f19_2", "f5_2", "f13_2", "f17_2", "f7_3", "f5_4", "f13_3", "f19_3", "f13_4", "f7_6b", "f13_6b"):
            t.append(A_field(b, c, "unary", workers=6))
        t += [B_field_exh(b, "f%d%s" % (p, h)) for p in (12289, 18433, 40961) for h in ("", "h")]
        bz = fullzoo_bin()
        for c in SHIPPED_PRIME + ["bls12_381_fq2", "mnt6_753_fq3"] + zoo_all():
            t.append(B_field(bz, c, seed + 7, 8000, 1800))
        t += [B_curve(b, c, seed + 7 + k, 1200, "aux", 3000) for c in BIG_CURVES for k in range(2)]
    return t

def plan_C19(b, tier, seed):
    t = []
    if tier == "quick":
        t += [A_field(b, "f13", "arith"), A_field(b, "f13", "arith", "f13h"), A_field(b, "f7_2", "arith"), A_field(b, "f7_3", "unary"), A_field(b, "f7_6", "arith")]
        t += [A_bigint(b, 1, "arith"), A_bigint(b, 2, "arith")]
        t += [A_curve(b, c, "arith") for c in ("sw13_0_2", "sw13_1_0", "te13_1_7", "sw_f7_2_a0")]
        t += [A_poly(b, "f5", "arith", 3, 4, 6)]
        t += [B_field(b, "bls12_381_fq", seed + 3, 1500), B_field(b, "bls12_381_fq12", seed + 3, 250), B_bigint(b, 4, seed + 3, 3000),
              B_curve(b, "bls12_381_g1", seed + 3, 600, "group"), B_curve(b, "ed_on_bls12_381", seed + 3, 600, "group")]
    else:
        t += plan_C03(b, "quick", seed) + [A_field(b, c, "arith", workers=6) for c in ("f7", "f13", "f31", "f3_2", "f7_2", "f5_2", "f7_6", "f7_6b", "f7_12")]
        t += [A_bigint(b, n, "arith", 8) for n in (1, 2, 3, 4, 6, 13)] + [A_poly(b, "f5", "arith", 4, 4, 8)]
        t += [B_field(b, c, seed + 3, 8000, 1800) for c in SHIPPED_PRIME + ["bls12_381_fq2", "bls12_381_fq6", "mnt6_753_fq3"]]
        t += [B_curve(b, c, seed + 3, 4000, "group", 2400) for c in BIG_CURVES]
    return t

def A_ser(b, cfg, mode, workers=8):
    return lambda: toy_replay(b, "ser", "MC_Ser", cfg, mode, workers=workers)
SER_CURVES_Q = ["sw13_0_2", "sw13_1_0", "te13_1_7", "sw61_0_2", "te61_1_7", "sw127_1_1", "te127_1_5", "sw251_0_2", "te251_1_2", "sw_f7_2_a0"]

def B_ser(b, cfg, seed, n, timeout=1500):
    if cfg.startswith("c_"): b = b.replace("vh-core", "vh-curves")
    return lambda: trace_validate(b, "curve", "Trace_Ser", cfg, seed, n, timeout=timeout, rec_args=["--profile", "ser"], label="B:ser:%s:seed%d:n%d" % (cfg, seed, n))
# full-size serialization: the library's format on curves of every shape (spare bits 0..7 in the top byte, flags in an extra byte, extension base fields,
# both models) and the ZCash format of curves/bls12_381
SER_BIG_Q = ["bls12_381_g1", "bls12_381_g2", "ed_on_bls12_381", "secp256k1", "mnt4_753_g1", "bn384_g1",
             "c_bls12_381_g1", "c_bls12_381_g2", "c_bn254_g1", "c_bn254_g2", "c_secp256r1", "c_secp384r1", "c_bls12_377_g2", "c_mnt6_298_g2", "c_bw6_761_g1", "c_ed25519", "c_curve25519",
             "c_ed_on_bls12_381_bandersnatch_te", "c_pallas", "c_mnt4_298_g2"]
def plan_C09(b, tier, seed):
    cs = SER_CURVES_Q if tier == "quick" else SER_CURVES_Q + ["sw19_0_8", "sw23_1_16", "sw31_1_29", "te29_1_2", "te13_2_4", "sw_f7_2_a1", "sw17_1_3"]
    t = []
    for c in cs:
        t += [A_ser(b, c, "field"), A_ser(b, c, "point")]
    if tier == "quick": t += [B_ser(b, c, seed, 160) for c in SER_BIG_Q]
    else: t += [B_ser(b, c, seed + k, 1200, 3000) for c in BIG_CURVES + CURVE_CRATE_CURVES for k in range(2)]
    return t
def plan_C10(b, tier, seed):
    cs = ["sw13_1_0", "sw13_1_4", "sw19_0_8", "te13_1_7", "te13_2_4", "sw251_0_2", "te251_1_2", "sw127_1_1", "te127_1_5", "sw_f7_2_a0"]
    if tier != "quick": cs += ["sw13_0_4", "sw23_1_16", "sw31_1_29", "te29_1_2", "te29_2_3", "sw61_0_2", "te61_1_7", "sw_f7_2_a1"]
    t = [A_ser(b, c, "point") for c in cs] + [A_ser(b, c, "field") for c in cs[:4]]
    if tier == "quick": t += [B_ser(b, c, seed + 50, 160) for c in SER_BIG_Q]
    else: t += [B_ser(b, c, seed + 50 + k, 1200, 3000) for c in BIG_CURVES + CURVE_CRATE_CURVES for k in range(2)]
    return t

def A_msm(b, cfg, mode, length, workers=6):
    return lambda: toy_replay(b, "msm", "MC_Msm", cfg, mode, workers=workers, env_extra={"LEN": str(length)}, emits_all=False,
                              label="A:msm:%s:%s:len%d" % (cfg, mode, length))
def plan_C05(b, tier, seed):
    if tier == "quick":
        return [A_msm(b, "sw13_1_4", "acc", 4), A_msm(b, "te13_1_7", "acc", 4), A_msm(b, "sw13_0_2", "acc", 3),
                A_msm(b, "sw13_1_4", "oneshot", 0), A_msm(b, "te13_1_7", "oneshot", 0), A_msm(b, "sw13_0_2", "oneshot", 0), A_msm(b, "sw_f7_2_a0", "oneshot", 0)] + \
               [B_curve(b, c, seed, 45, "msm") for c in BIG_CURVES]
    return [B_curve(b, c, seed + k, 300, "msm", 3000) for c in BIG_CURVES for k in range(2)] + \
           [A_msm(b, c, "acc", 5, 8) for c in ("sw13_1_4", "te13_1_7", "sw13_0_2", "sw19_0_8", "te29_1_3")] + \
           [A_msm(b, c, "oneshot", 0, 8) for c in SW_TOY + TE_TOY + ["sw_f7_2_a0", "sw_f7_2_a1"]]

def A_mle(b, cfg, mode, nv, workers=4):
    return lambda: toy_replay(b, "mle", "MC_Mle", cfg, mode, workers=workers, env_extra={"NV": str(nv)}, label="A:mle:%s:%s:nv%d" % (cfg, mode, nv))
def plan_C17(b, tier, seed):
    if tier == "quick":
        return [A_mle(b, "f3", "arith", 0), A_mle(b, "f3", "arith", 1), A_mle(b, "f3", "arith", 2, 6), A_mle(b, "f5", "arith", 1),
                A_mle(b, "f3", "unary", 0), A_mle(b, "f3", "unary", 1), A_mle(b, "f3", "unary", 2), A_mle(b, "f3", "unary", 3, 8),
                A_mle(b, "f5", "unary", 2, 6), A_mle(b, "f7", "unary", 1), A_mle(b, "f3", "mv", 0), A_mle(b, "f5", "mv", 0)]
    return [A_mle(b, "f3", "arith", n, 8) for n in (0, 1, 2)] + [A_mle(b, "f5", "arith", n, 8) for n in (0, 1)] + [A_mle(b, "f7", "arith", 1, 8)] + \
           [A_mle(b, "f3", "unary", n, 8) for n in (0, 1, 2, 3)] + [A_mle(b, "f5", "unary", n, 8) for n in (0, 1, 2)] + [A_mle(b, "f7", "unary", n, 8) for n in (0, 1, 2)] + \
           [A_mle(b, c, "mv", 0, 8) for c in ("f3", "f5", "f7", "f13")]

def plan_C18(b, tier, seed):
    mode = "all" if tier == "quick" else "deep"
    return [lambda: toy_replay(b, "container", "MC_Container", "zoo", mode, workers=8, timeout=3000, label="A:container:zoo:%s" % mode)]

def curves_bin(b): return b.replace("vh-core", "vh-curves")
def B_pairing(b, engine, seed, n, timeout=1500):
    binp = b if engine == "bls12_381" else curves_bin(b)
    return lambda: trace_validate(binp, "pairing", "Trace_Pairing", engine, seed, n, timeout=timeout, label="B:pairing:%s:seed%d:n%d" % (engine, seed, n))
def plan_C06(b, tier, seed):
    if tier == "quick":
        return [B_pairing(b, e, seed, 220) for e in ("bls12_381", "bls12_377", "bn254", "bw6_761", "bw6_767", "mnt4_298", "mnt6_298")] + \
               [B_pairing(b, e, seed, 60) for e in ("mnt4_753", "mnt6_753")]
    return [B_pairing(b, e, seed + k, 1500, 3000) for e in ("bls12_381", "bls12_377", "bn254", "bw6_761", "bw6_767", "mnt4_298", "mnt6_298", "mnt4_753", "mnt6_753", "bls12_381c") for k in range(2)]

def config_groups(binp):
    r = subprocess.run([binp, "record", "config", "--cfg", "list", "--out", "/dev/null"], capture_output=True, text=True)
    if r.returncode != 0: raise ToolError("cannot list configuration groups of %s: %s" % (binp, r.stderr[-500:]))
    return json.loads(r.stdout.strip().split("\n")[-1])
def B_config(binp, group, seed):
    return lambda: trace_validate(binp, "config", "Trace_Config", group, seed, 0, timeout=1500, label="B:config:%s:seed%d" % (group, seed))
def plan_C16(b, tier, seed):
    """every configuration group found in the SOURCE TEXT of /repo (gen_config.py): test-curves modules through vh-core, curve crates through vh-curves"""
    seeds = [seed] if tier == "quick" else [seed, seed + 1, seed + 2]
    t = []
    for binp in (b, curves_bin(b)):
        for g in config_groups(binp):
            t += [B_config(binp, g, s) for s in seeds]
    return t

THREADS_Q = [1, 2, 3, 4, 7, 16]
def plan_C14(b, tier, seed):
    """b is the harness built with every `parallel` feature; each job replays / records inside rayon pools of the listed sizes and is judged by the
    same specification as the serial build."""
    th = THREADS_Q if tier == "quick" else [1, 2, 3, 4, 5, 6, 7, 8, 9, 12, 13, 16, 17, 33]
    t = []
    P = lambda cfg, mode, deg, maxn, w=4: (lambda: toy_replay(b, "poly", "MC_Poly", cfg, mode, workers=w, env_extra={"DEG": str(deg), "MAXN": str(maxn)}, threads=th,
                                                               label="A:poly:%s:%s:deg%d:maxn%d:threads" % (cfg, mode, deg, maxn)))
    t += [P("f97", "domain", 0, 32), P("f257", "domain", 0, 16), P("f17", "unary", 2, 8), P("f12289", "fftbig", 0, 128 if tier == "quick" else 512, 8), P("f5", "arith", 3, 4, 6),
          P("f12289", "polybig", 0, 300 if tier == "quick" else 1030, 8)]
    t += [lambda: toy_replay(b, "field", "MC_Field", "f13", "arith", workers=4, threads=th, label="A:field:f13:arith:threads"),
          lambda: toy_replay(b, "curve", "MC_Curve", "sw13_1_0", "arith", workers=4, threads=th[:4], label="A:curve:sw13_1_0:arith:threads"),
          lambda: toy_replay(b, "curve", "MC_Curve", "te13_1_7", "mul", workers=4, threads=th[:4], label="A:curve:te13_1_7:mul:threads"),
          lambda: toy_replay(b, "msm", "MC_Msm", "sw13_1_4", "oneshot", workers=6, env_extra={"LEN": "0"}, emits_all=False, threads=th, label="A:msm:sw13_1_4:oneshot:threads"),
          lambda: toy_replay(b, "msm", "MC_Msm", "sw13_1_4", "acc", workers=6, env_extra={"LEN": "3"}, emits_all=False, threads=th[:3], label="A:msm:sw13_1_4:acc:threads"),
          lambda: toy_replay(b, "container", "MC_Container", "zoo", "all", workers=8, threads=[2, 5], label="A:container:zoo:threads"),
          lambda: toy_replay(b, "mle", "MC_Mle", "f3", "unary", workers=4, env_extra={"NV": "2"}, threads=th[:4], label="A:mle:f3:unary:threads")]
    for k, thr in enumerate(th):
        t.append((lambda thr=thr, k=k: trace_validate(b, "pairing", "Trace_Pairing", "bls12_381", seed + k, 120, threads=thr, label="B:pairing:bls12_381:threads%d" % thr)))
        t.append((lambda thr=thr, k=k: trace_validate(b, "field", "Trace_Field", "bls12_381_fr", seed + k, 800, threads=thr, label="B:field:bls12_381_fr:threads%d" % thr)))
        t.append((lambda thr=thr, k=k: trace_validate(b, "curve", "Trace_Curve", "bls12_381_g1", seed + k, 300, rec_args=["--profile", "group"], threads=thr, label="B:curve:bls12_381_g1:threads%d" % thr)))
        t.append(B_polybig(b, "bls12_381_fr", seed + k, 70, 12, threads=thr))
        t.append(B_polybig(b, "bn384_fq", seed + k, 60, 12, threads=thr))
        t.append((lambda thr=thr, k=k: trace_validate(b, "curve", "Trace_Curve", ["bls12_381_g1", "ed_on_bls12_381", "bls12_381_g2"][k % 3], seed + k, 40, rec_args=["--profile", "msm"], threads=thr, label="B:curve:msm:threads%d" % thr)))
    return t
FEATURES = {"C14": ("parallel",)}

def B_h2c(b, cfg, seed, n):
    return lambda: trace_validate(b, "h2c", "Trace_H2C", cfg, seed, n, label="B:h2c:%s:seed%d:n%d" % (cfg, seed, n))
def plan_C13(b, tier, seed):
    n = 120 if tier == "quick" else 1500
    return [lambda: model_only("MC_H2C_RFC", {}, workers=1, label="M:MC_H2C_RFC"),
            B_h2c(b, "bls12_381_g1", seed, n), B_h2c(b, "bls12_381_g2", seed, n), B_h2c(b, "fields", seed, n),
            B_h2c(b, "bls12_381_g1", seed + 1, n), B_h2c(b, "bls12_381_g2", seed + 1, n),
            (lambda: trace_validate(curves_bin(b), "h2c", "Trace_H2C", "c_bandersnatch_ell2", seed, 2 * n, label="B:h2c:c_bandersnatch_ell2:seed%d:n%d" % (seed, 2 * n)))]

LIT_CFGS = ["z1a", "z2b", "z4a", "z13a", "m127", "c25519", "g64", "z6c"]
def plan_C20(b, tier, seed):
    hc = LIT_CFGS + [c + "h" for c in LIT_CFGS]
    jobs = literal_jobs(LIT_CFGS, hc)
    return [(lambda j=j: j) for j in jobs]

PLANS = {"C16": plan_C16, "C13": plan_C13, "C14": plan_C14, "C06": plan_C06, "C20": plan_C20, "C18": plan_C18, "C17": plan_C17, "C05": plan_C05, "C09": plan_C09, "C10": plan_C10, "C11": plan_C11, "C19": plan_C19, "C07": plan_C07, "C08": plan_C08, "C03": plan_C03, "C04": plan_C04, "C12": plan_C12, "C01": plan_C01, "C02": plan_C02, "C15": plan_C15}

RULES = {
 "C16": "B: the configuration dumpers are GENERATED from the source text of /repo (every #[derive(MontConfig)] struct with its declared attributes, every FpK<..Config> type, every impl of SWCurveConfig / TECurveConfig / GLVConfig / WBConfig / Bls12Config / BnConfig / BW6Config / MNT4Config / MNT6Config in the 7 test-curves modules and all 26 curve crates, ~150 configuration items) and read every constant through the public traits; TLC evaluates the defining equation of every constant with the specification's own arithmetic: modulus prime (Miller-Rabin, 12 bases) and equal to the declared attribute, bit size, spare bit, R, R2, INV, two-adicity, trace and the derived halves, generator a quadratic non-residue, 2-adic and large-subgroup roots = generator power with EXACT orders; X^d - nonresidue irreducible at every tower level, every Frobenius table entry = g^(p^i) / g (and (g^2)^(p^i) / g^2) computed by exponentiation in the tower, cubic-extension Tonelli-Shanks constants; curves non-singular, generator on the curve with r G = O, r prime, cofactor inverse, h r in the Hasse interval and annihilating sampled points; GLV: endomorphism(P) = lambda P on the generator and sampled subgroup points, lattice rows in the kernel lattice, det = r, short basis; WB/SWU: Z non-square, A'B' # 0, isogeny maps E' to E and is a group homomorphism on sampled points; pairing families: BLS12 r(x), p(x) and twist b' = b xi^(+-1), BN p(x), r(x), ate digits, twist Frobenius constants, BW6 r(x), loop counts, MNT twist coefficients, ate loop count = t - 1, final exponent Phi_k(q) = r (w1 q + w0); Montgomery forms A (a - d) = 2 (a + d), B (a - d) / 4 a square; Elligator 2: Z non-square, 1 / B^2, A / B, a B = A + 2, d B = A - 2", "C13": "M: the specification's expand_message_xmd (incl. oversize DST) and hash_to_field reproduce the 30 expand_message_xmd vectors (SHA-256 / SHA-512, 38- and 256-byte DSTs) and the 10 BLS12-381 G1/G2 hash_to_field vectors of RFC 9380 inside TLC; B: seeded calls of the real DefaultFieldHasher (messages of 0..300 bytes, DSTs of 0, 1, 43, 255, 256, 280/300 bytes, 1..5 elements, Fq / Fq2 / several prime fields, SHA-256 and SHA-512), SWUMap on boundary and random u (0, small, p-1, ...), WBMap and the full hash_to_curve for BLS12-381 G1 and G2: TLC recomputes hash_to_field, checks the SWU point through the RFC's defining relation (x = x1 if g(x1) square else Z u^2 x1, y^2 = g(x), sgn0(y) = sgn0(u)), applies the isogeny as a rational map, adds with its own group law, clears the cofactor with h_eff and checks subgroup membership and determinism; Elligator 2 on Bandersnatch (the one shipped Elligator2Config): the map on 0, +-1, the roots of the exceptional denominator 1 + Z u^2, inputs with g(x1) = 0 and s = -1, boundary and random u, decided by the RFC relation (x = x1 / x2 by squareness of g(x1), y^2 = g(x), sgn0(y), Edwards point (s/t, (s-1)/(s+1)) or (0,1)), and hash_to_curve = h (map(u0) + map(u1)) with the specification's Edwards law",
 "C14": "the harness is built a second time with the parallel feature of ark-ff / ark-ec / ark-poly / ark-serialize / ark-std; the SAME TLC-emitted transitions and recorded traces that decide C01/C03/C04/C05/C06/C07/C08/C17/C18 on the serial build are replayed inside rayon pools of 1, 2, 3, 4, 7, 16 threads (thorough: 1..9, 12, 13, 16, 17, 33) and judged by the same specification: FFT / IFFT of all domain kinds for every input length up to 32 and for sizes 32..128 (thorough 512; these pass the 128-element parallel-chunk threshold) incl. cosets, Lagrange coefficients, element tables, polynomial evaluation over domains, evaluation / linear operations / products / quotients of polynomials with 15..300 coefficients (thorough 1030; lengths around every power of two, where the chunked Horner evaluation and the parallel iterators split), multiplication and division, batch inversion, sum of products, batch normalisation, scalar multiplication tables, MSM entry points and accumulators, multi-pairings, container / batched validity checks",
 "C06": "B: seeded programs on every pairing engine (BLS12-381 M-twist, BLS12-377 D-twist, BN254, BW6-761, BW6-767, MNT4-298/753, MNT6-298/753): registers of G1, G2, GT are loaded with known multiples of the generators (scalars 0, 1, 2, r-1, small, random), combined with add / neg / scalar multiplication, paired (single pairing, multi-pairing of 0,1,2,3,4,5,9 pairs, prepared inputs, Miller loop + final exponentiation, product of single pairings) and combined in GT (mul, inverse, power); after every step the set of registers equal to the written one, its identity-ness and - for GT - order-divides-r / Valid::check are logged and TLC requires the partition to be the partition of the discrete logarithms a*b. non-trivial = written register is not the identity",
 "C20": "A: for 8 moduli of the zoo (1, 2, 4, 6, 13 limbs; with / without spare bit; Mersenne 2^127-1, 2^255-19, Goldilocks), derived and hand-written configuration: TLC generates every literal sign x {decimal, 0x, 0X, 0o, 0O, 0b, 0B} x {0, 2 leading zeros} x 21 values (0, 1, 2, 10, 15, 16, 255, 2^32, 2^64-1, 2^64, 2^64+1, (p-1)/2, p-2, p-1, p, p+1, 2p, 2p+1, 2^(64N-1), (2^64N)/3, 2^(64N)-1) with the value it must denote; all ~800 literals per modulus are compiled as MontFp! / BigInt! constants and the constant's raw Montgomery limbs are compared with the run-time element of the same value; plus the derive macro's limb count, modulus limbs, R, R2, INV, bit size, two-adicity, generator and 2-adic root against their definitions",
 "C18": "A: a zoo of 44 composite types (all integer widths and signs, usize, bool, Option, Vec / VecDeque / LinkedList incl. nested, tuples, arrays, String, BigUint, BTreeSet, BTreeMap, Rc / Arc / Cow, the four derive shapes named / tuple / nested-tuple / generic, and the mode-pinning wrappers around the only mode-dependent leaf - points of a toy curve - alone, inside Vec and inside tuples): every value built from tiny leaf domains up to length 2 x both ambient modes: bytes, advertised size, exact-size buffer; a structured set of ~4700 byte strings per type (every payload of <= 3 bytes over an alphabet with ASCII, valid 2-byte UTF-8, lone continuation byte, 0xFF; behind every length prefix in {0..4, 2^16, 2^40, 2^62, 2^64-1}): error vs value, decoded value, bytes consumed; panics and aborts are violations",
 "C17": "A: MleMachine over toy fields: ALL tables for 0..3 variables over F_3 (6561 tables), 0..2 over F_5, 0..1 over F_7; all ordered pairs of tables x add/sub/scaled add/eq/concat; every table x evaluation at EVERY point of F_p^n, fix_variables for every partial assignment of every length, every relabel window (also those touching the last variable), neg, scaling by {0,1,2,-1}, index, to_evaluations; every operation in the dense AND the sparse form; multivariate sparse polynomials: every term list of <= 2 terms over 2 variables (duplicate monomials, zero coefficients, unordered variables) x every point for evaluate / neg and selected points for add / sub",
 "C05": "A: MsmMachine over Z_r explored by TLC with the conservation invariant (result + buffered = everything added) on every state; EVERY history New(kind, cap); Add^n; Finalize with n <= LEN over bases {O, G, 2G, -G} (repeated and identity bases) x scalars {0, 1, r-1} x every capacity 0..LEN+1 x {Chunked, HashMap} is replayed on the real accumulators over toy curves; every pair of base/scalar vectors of length <= 3 (mismatched lengths included) and patterned vectors of length 31, 32, 33, 100 through msm (checked), msm_unchecked, msm_bigint, msm_chunks and - through the verification hook - both private bucket methods (the plain one is otherwise unreachable); B: full-size MSMs of 0..1025 terms on BLS12-381 G1/G2, secp256k1, MNT4-753 G1, BN384, Jubjub through all six entry points, validated by TLC as (sum k_i a_i) P",
 "C09": "A: for toy curves over fields with 4, 6, 7 and 8-bit moduli (so 4, 2, 1, 0 spare bits in the top byte; 2-bit and 1-bit flags that fit exactly or spill into an extra byte) and over F_{7^2}: every field element x every flag kind x every flag value: bytes and advertised size; EVERY byte string of the encoded length, one shorter and one longer (<= 2 bytes): decoding outcome, decoded value, flag and bytes consumed (TLC proves Decode.Encode = id and, for field elements, Encode.Decode = id on the specification); every curve point x compressed/uncompressed through affine and rescaled projective serializers and an exact-size buffer; B (Trace_Ser): full-size curves of every shape (0..7 spare bits, flags in a byte of their own for 256- and 384-bit moduli, base fields F_p, F_{p^2}, F_{p^3}, both models) incl. 14 curve crates and the ZCash format of curves/bls12_381 (ZcashCodec.tla): points of all classes (identity, generator multiples, random subgroup points, arbitrary-x points outside the subgroup, coordinates with structure: small, in a subfield, zero components - for a = 0 curves also a chosen y through a cube root) through four serializer entry points, field elements with every flag kind, and decoding of real encodings under 13 mutations (each flag bit, bit flips, truncation, extension, non-reduced coordinate, x+1, y+1, canonical / non-canonical infinity, random, all-ones) with and without validation",
 "C10": "A: EVERY byte string of length 0..size (<= 2 bytes) offered as compressed / uncompressed encoding with validation on and off, on toy curves with cofactor 1, 2, 4, 8, 18, 20, 36 (so most decodable points lie outside the subgroup) and x-coordinates without a root: error vs Ok, the decoded point, panics; with validation the returned point must be on the curve and in the prime-order subgroup; B (Trace_Ser): the same decision at full size on 20 shipped curves incl. the ZCash-format override of curves/bls12_381: crafted and mutated encodings (off-curve uncompressed coordinates, points outside the subgroup, non-canonical infinity, stray bits) with and without validation; a rejection must come with a witness that the bytes denote an invalid point",
 "C11": "A: EVERY element of toy fields (p = 3 mod 4: 7,11,31; two-adicity 2..8: 13,17,97,193,257; F_{p^2}, F_{p^3} with configured constants, F_{p^4}, F_{p^6} = 2 over 3) through sqrt / sqrt_in_place (relation: a root is returned exactly for squares and squares back), legendre (Euler criterion by norm descent, checked by TLC against the existence of a root); exhaustive traces over F_12289 and F_40961 (two-adicity 12, 13); B: shipped fields and the zoo (Goldilocks 32; primes of two-adicity 40, 46, 47 = the BLS12-377 moduli, and 70 = wider than a limb) with squares, non-squares and boundary values, opened by a scripted prologue that sends the 2-power roots of unity of order 2, 4, ..., 64, 2^(s-1), 2^s (and their products with squares) through legendre and sqrt - the inputs with the longest Tonelli-Shanks jumps; curve coordinate recovery (get_ys_from_x_unchecked / get_xs_from_y_unchecked / get_point_from_*_unchecked) on shipped curves: both roots in lexicographic order or none, for random, small, structured and known-good coordinates",
 "C19": "A: eq / cmp / hash-consistency / is_zero / is_one on all pairs of toy field and tower elements, of boundary big integers, of curve points in ALL pairs of projective representatives (equality and hashing must not depend on the representative; affine vs projective), of polynomials in dense and sparse form; B: the same queries inside full-size traces where equal values arise along different operation sequences",
 "C08": "A: PolyMachine over toy prime fields: all ordered pairs of polynomials of degree < DEG x add/sub/mul/div/scaled add/eq in every dense/sparse mix and API variant (operators by value/reference, assign forms, naive and FFT products, the four divide_with_q_and_r mixes); every polynomial x scaling, evaluation, canonical-form conversions, vanishing-polynomial mul/div and evaluate_over_domain / interpolate over every small domain and coset (radix-2, mixed-radix, general), including polynomials longer than the domain; patterned polynomials of 15..130 coefficients (thorough 1030) x evaluation, linear operations, products and quotients with small and large operands. Results are compared as STORED coefficient vectors, so non-canonical results are visible. non-trivial = register changed or a non-zero value returned",
 "C07": "A: every constructible domain up to MAXN over fields with two-adicity 2..13 and small subgroups 3^k / 5^k: construction for every request 0..MAXN+1 and around the largest subgroup (all three kinds; minimal admissible size or none), generator order, element(i) for all i, elements(), FFT of every unit vector / all-ones / dense vector for EVERY input length 0..n, IFFT, vanishing polynomial and all Lagrange coefficients at every field element (p <= 31) or at in-domain and off-domain samples; four coset offsets; B: full-size domains (Trace_Poly): construction requests around every power of two up to 2^12 (thorough 2^13) and mixed sizes 2^a 3^b over BLS12-381 Fr, BN384 Fq (3^2), secp256k1 Fr (two-adicity 6, falls back to mixed radix), Fp128: FFT / IFFT / coset FFT of random and short vectors, evaluate_over_domain, interpolate, element tables, vanishing polynomials and all Lagrange coefficients (on and off the domain), decided by DftIdentity / LagrangeClosed at a random 250-bit point",
 "C03": "A: every transition of CurveMachine over toy curves (all ordered pairs of ALL points of the curve - prime-order subgroup for incomplete Edwards curves - x add/sub/eq/sum/batch-normalise; all points x double/negate/conversions), replayed through every projective rescaling of the operands (all of F_q^* for q = 13, 12 spread values otherwise) and every API variant (proj+proj, mixed, affine+affine, iterator sums). B: seeded programs on shipped curves with randomly rescaled registers; raw Jacobian / extended coordinates decoded by the specification. non-trivial = abstract register changed or a value returned",
 "C04": "A: every (k, P) with k in 0..2r+2 and P any point of a toy curve, through mul_bigint (with leading zero limbs), affine mul_bigint, bit streams (with/without leading zeros), scalar-field multiplication, w-NAF w=2..6 with fresh / precomputed / too-short tables, batch_mul for 1,2,31,32,33 scalars and three table sizings. B: boundary scalars (0,1,r-1,r,r+1,2^64-1,2^64N-1,random) on shipped curves, spec computes k.P by its own double-and-add; on the 11 configurations that ship GLV parameters: scalar_decomposition as the relation k = +-k1 +- lambda k2 (mod r) with both halves short, glv_mul_projective / glv_mul_affine on subgroup points vs k.P; fixed-base batch_mul of 1..1025 full-size scalars with fresh tables and tables sized for another number of scalars, folded into one linear combination",
 "C12": "A: all points of toy curves with cofactor 1,2,3,4,6,8 (so mostly outside the subgroup): subgroup test vs r.P = O, clear_cofactor vs h.P, mul_by_cofactor, mul_by_cofactor_inv on the subgroup. B: shipped curves with points from arbitrary coordinates; clear_cofactor vs the standardised effective cofactor (BLS12-381 G1: 1-x, G2: h2(3x^2-3)), endomorphism-based subgroup tests vs the definition; UniformRand of affine and projective points only yields points with r.P = O",
 "C15": "A: BigIntMachine over the limb-boundary alphabet (NL<=2: all limb combinations from {0,1,2,2^31,2^63-1,2^63,2^64-2,2^64-1}; larger NL: one special limb, others 0 or all-ones): all ordered pairs x binary operations, every value x unary operations / shifts {0,1,63,64,65,127,128,64N-1,64N,64N+1,64N+64} / conversions / w-NAF for w in {0,1,2,3,4,5,8,16,20,64}; every transition replayed on ark_ff::BigInt<N> through every API variant. B: seeded boundary-biased programs for N in {1,2,3,4,6,12,13} validated by TLC (relaxed NAF as a relation). non-trivial = register changed or a non-zero/true flag or value returned",
 "C01": "A: every transition of FieldMachine over the listed toy prime fields (all operand tuples x all actions; both the derive-macro and the hand-written trait-default configuration) replayed through every API variant; B: seeded random+boundary programs on shipped fields and the moduli zoo validated by TLC over BigNat, incl. decimal strings (FromStr / Display: numerals of integers below, at and far above p, negative, and the canonical numeral back); the same traces recorded from a third build with ark-ff's x86-64 assembly backend (feature asm, 2..6 limbs). non-trivial = result differs from the operands and from 0/1, counted per distinct (operands, event)",
 "C02": "A: every transition of FieldMachine over toy towers (all elements, or the <=2-nonzero-coordinate sub-alphabet for towers with >3000 elements); B: seeded programs on the shipped BLS12-381 Fq2/Fq6/Fq12 and MNT6 Fq3 validated against schoolbook tower arithmetic over BigNat; Frobenius checked against x^(p^k); tower-specific operations (mode tower / trace events): norm, conjugation, multiplication by elements of every subfield level through every method the type offers (mul_by_fp, mul_by_fp2, mul_assign_by_fp2, mul_assign_by_basefield ...), the sparse multiplications mul_by_01 / mul_by_1 / mul_by_014 / mul_by_034 of both degree-6 towers and Fp12 against the product with the sparse element, and cyclotomic square / inverse / exponentiation on EVERY element of the cyclotomic subgroup of the small towers (projected elements for the large ones; exponents incl. 2^64-1, 2^64)",
}

def _glv_outside(mm, params):
    e = mm.get("event") or {}
    return mm.get("cfg") in params.get("cfgs", []) and e.get("op") == "mul" and e.get("outside") is True
def _mnt_identity(mm, params):
    e = mm.get("event") or {}
    return mm.get("cfg") in params.get("cfgs", []) and e.get("op") == "pair" and e.get("has_identity") is True
def _zpad(mm, params):
    e = mm.get("event") or {}
    if e.get("op") != "hash_to_prime_field": return False
    pbytes = e.get("p") or []
    pv = sum(b << (8 * i) for i, b in enumerate(pbytes))
    L = (pv.bit_length() + int(e.get("k", 128)) + 7) // 8
    block = {"sha256": 64, "sha384": 128, "sha512": 128}.get(e.get("hash"), 0)
    return L != block
def _dense_scale_zero(mm, params):
    t = mm.get("transition") or {}; e = t.get("ev") or {}
    pre = t.get("pre") or [{}]
    return (mm.get("machine") == "mle" and e.get("op") == "scale" and e.get("f") == 0 and str(mm.get("variant", "")).startswith("dense_mul")
            and isinstance(e.get("d"), int) and 1 <= e["d"] <= len(pre) and (pre[e["d"] - 1] or {}).get("n", 0) > 0
            and (mm.get("got_post") or [None] * len(pre))[e["d"] - 1] == {"n": 0, "t": [0]})
PREDICATES = {"dense_mle_scale_zero": _dense_scale_zero, "h2f_zpad_block_size": _zpad, "glv_mul_outside_subgroup": _glv_outside, "mnt_pairing_identity": _mnt_identity}
NEEDS_CURVES = {"C06", "C16", "C02", "C12", "C04", "C13", "C09", "C10"}
HOOK_COMMITS = ["b2d3621", "63ec7b9", "7c991e8"]
NOT_APPLICABLE = {}
META = {
 "C16": {"text": "Trace_Config.tla states, per kind of configuration item, the equations its constants are documented to satisfy, over the same BigNat / Tower / Curve / H2C modules that define the arithmetic of the other machines; the trace is the dump of every constant of every configuration found in the source tree, one event per item, and TLC names the equation that fails. There is no state machine behind a table of constants: the 'behaviour' validated is the constant table itself, which is the degenerate case of trace validation (stated in DESIGN.md).",
         "note": "GENERATOR is checked to be a quadratic non-residue and to yield roots of the exact orders, not to generate the whole multiplicative group (needs the factorisation of p - 1). Primality is Miller-Rabin with 12 fixed bases. Montgomery-form and Elligator 2 parameters are covered (MontCurveConfig only up to the square class that 'birationally equivalent' determines); the BW6 base-field polynomial (h_t, h_y) is not. Sampled points: 3 per curve per seed."}, "C13": {"text": "H2C.tla is an independent implementation of RFC 9380 (expand_message_xmd, hash_to_field, the simplified SWU map as a relation, sgn0, isogeny evaluation, hash_to_curve = clear_cofactor(iso(map(u0)) + iso(map(u1)))) over an abstract hash bound to the JVM's SHA-2 and validated inside TLC by the RFC's own vectors; traces of the real code are validated against it.",
         "note": "SHA-2 itself is not modelled. Suites: BLS12-381 G1 / G2 with SHA-256 (test-curves); hash_to_field also on other fields and SHA-512, where the library's Z_pad length differs from the RFC (known finding). Elligator 2: the hash_to_curve check of that suite takes the two field elements as logged, because hash_to_field for a 255-bit field is affected by the Z_pad finding. Toy SWU configurations are not enumerated (the exceptional inputs u = 0 etc. are in the boundary alphabet)."},
 "C14": {"text": "The specification has no notion of threads: every action's result is defined by the serial mathematical definition, so the thread count is an argument the result must not depend on. The parallel build is run inside explicit rayon pools of each size and its behaviour must be a behaviour of the same machines (exhaustive toy transitions + full-size traces). The parallel FFT splits whenever log n > log2(threads) and batch inversion chunks down to 1 element, so toy sizes already reach the splitting arithmetic; sizes up to 128/512 reach the 128-element chunk threshold of compute_powers and the degree-aware paths.",
         "note": "rayon's scheduler is not modelled as interleavings (the parallel code is data-parallel over disjoint chunks; races would be a memory-safety question outside this technique). Pool sizes larger than the input are included (16 and 33 threads on inputs of 2..8 elements)."},
 "C06": {"text": "PairingMachine is the abstract bilinear group on discrete logarithms (e(a g1, b g2) = ab e(g1,g2), multi-pairing = sum); TLC validates traces of the real engines through equality patterns only, which is what bilinearity, additivity, non-degeneracy (log e(g1,g2) = 1), identity preservation, multi-pairing = product and prepared = unprepared mean observationally; every output is also checked to have order dividing r.",
         "note": "No toy pairing curves; the specification does not compute pairing values (a consistent different bilinear non-degenerate map would be accepted - it would be a valid pairing). MNT4/MNT6 with identity inputs is a recorded known finding."},
 "C20": {"text": "MC_Literal specifies the denotation of a literal (sign, radix prefix in either case, leading zeros, reduction modulo p with p - (|v| mod p) for negative values) and of the derive macro's constants; TLC generates the literal grid, `check` compiles it with the real proc-macros and const fns (gen_lit.rs is regenerated and the harness rebuilt when the grid changes) and the harness compares every constant with the value TLC computed and with the run-time element.",
         "note": "The grid is boundary-exhaustive, not all strings. Literals that must be rejected at compile time (BigInt! of a negative or oversized value) cannot be part of a compiled table and are not exercised."},
 "C18": {"text": "ContainerCodec defines Enc / Dec for a grammar of type descriptors as total functions (length prefixes, bool and UTF-8 validity, set / map normalisation, mode pinning); TLC checks Dec(Enc(v)) = v with n = size for every value of the zoo and emits every encode and decode case, which the harness replays through serialize_with_mode, the shorthand methods, by-reference impls and exact-size buffers.",
         "note": "Values are small (length <= 2); UTF-8 validity is modelled for 1- and 2-byte sequences only. Allocation behaviour is observed through the process (an abort on an oversized prefix kills the harness and is reported with the offending input)."},
 "C17": {"text": "The abstract value is the table on the Boolean hypercube; evaluation, fixing, relabelling, concatenation and arithmetic are defined on tables from the eq-polynomial sum, and TLC checks on the specification that the table is the restriction of the extension and that fix/relabel commute with evaluation. All transitions of the toy models are replayed on DenseMultilinearExtension and SparseMultilinearExtension (abstracted through the stored map, so to_evaluations itself is under test) and on the multivariate SparsePolynomial.",
         "note": "Toy fields only (the code is generic); up to 3 variables."},
 "C05": {"text": "The accumulators are modelled as state machines with the flush rule of the code and a history variable; TLC checks conservation and 'finalize returns the history' in every reachable state and every complete behaviour is replayed on ChunkedPippenger / HashMapPippenger of real toy curves (short Weierstrass, twisted Edwards, base field F_{p^2}). One-shot MSMs are defined as sum k_i d_i in Z_r and compared with the group element (sum) * G. Full size: CurveMachine.MsmLin - bases are the multiples 0..15 of a register, so an MSM of any length costs the specification one scalar multiplication - validates traces of msm / msm_unchecked / msm_bigint / msm_chunks and both bucket methods on shipped curves for lengths 0..1025 (every window size from 3 up) with boundary scalars (0, 1, r-1, 2^j, 2^j - 1, all maximal).",
         "note": "Bases are multiples of one point with known small logarithms. Scalars are canonical field elements (msm_bigint documents that precondition)."},
 "C09": {"text": "Codec defines the encodings as total functions between values and byte sequences (size formula, flag placement, sign conventions from the field's order); TLC checks the round-trip and uniqueness theorems on the specification and emits the expected outcome for every value and every byte string of toy configurations; the harness requires the real serializers (all entry points, affine and projective, exact-size buffers) to produce exactly those bytes, sizes, values, flags and consumed lengths.",
         "note": "Exhaustive over byte strings up to 2 bytes (toy moduli up to 8 bits; F_{7^2}); full-size curves (library format and the ZCash-format override of curves/bls12_381, specified in ZcashCodec.tla) are covered by trace validation with structured points and mutated encodings."},
 "C10": {"text": "Deserialize is specified as a total function: error, or the point the bytes denote, and with validation only points of the prime-order subgroup (defined as r.P = O on the specification's own group law). TLC enumerates every byte string and predicts the outcome; panics or reading past the advertised size are violations.",
         "note": "Same toy scope as C09; cofactors up to 36."},
 "C11": {"text": "FieldMachine.Sqrt is a relation (some root iff square, root^2 = x, sqrt(0) = 0) and Legendre is Euler's criterion evaluated by norm descent; TLC proves on every toy field that both agree with the existence of a root, explores every element, and the harness replays sqrt, sqrt_in_place and legendre on the real algorithms (p = 3 mod 4 shortcut, Tonelli-Shanks for every two-adicity up to 13 exhaustively, quadratic-extension and cubic-extension algorithms). Full-size traces cover shipped fields.",
         "note": "Curve coordinate-recovery helpers are CurveMachine.Recover / FromCoord (relations) validated on traces of shipped curves. Fields without a configured algorithm (Fp6 3-over-2, Fp12) are outside the property."},
 "C19": {"text": "Eq / Ord / Hash / is_zero / is_one are Query actions of the Field, BigInt, Curve and Poly machines defined as equality / integer order / documented lexicographic order of ABSTRACT values; TLC checks the total-order behaviour implicitly by enumerating all pairs, and the harness evaluates ==, !=, cmp, partial_cmp, <, > and hashing on every pair of representatives.",
         "note": "Pairing outputs are covered by C06's equality-pattern check."},
 "C08": {"text": "PolyMachine defines every operator on canonical coefficient sequences over Z_p from first principles (schoolbook product, Euclidean division, Horner evaluation, DFT as a sum, interpolation as the inverse DFT sum); TLC checks ring laws, the division identity and interpolation-inverts-evaluation on the specification itself and emits every transition of the toy models, which the harness replays on DensePolynomial / SparsePolynomial / DenseOrSparsePolynomial / Evaluations in every representation mix.",
         "note": "Toy fields only for the exhaustive part (the polynomial code is generic over the field; field arithmetic itself is C01). SparsePolynomial::from_coefficients_vec is only fed distinct degrees with non-zero coefficients (it documents that it does not normalise)."},
 "C07": {"text": "A domain is specified by its defining properties: minimal admissible size for its kind (or none), generator of exactly that order derived from the configured roots, element(i) = h g^i, FFT = evaluation at the elements in order (as a sum), IFFT its inverse, vanishing polynomial X^n - h^n, Lagrange coefficients from the product formula (also at domain points). TLC checks Lagrange/vanishing theorems on the specification and emits every query; the harness replays them on Radix2 / MixedRadix / General domains.",
         "note": "Exhaustive for sizes up to 128 (toy fields up to 40961). Full-size domains are decided by relations that characterise the transform (a wrong result survives for at most n of > 2^250 points z); MC_Poly proves on every toy domain that these relations are theorems of the definitions and that they reject a perturbed vector."},
 "C03": {"text": "TLC enumerates every point of each toy curve by brute force, checks that the textbook affine law of the specification is a group law on it (closure, commutativity, associativity, identity, inverse, order h*r) and that the catalogue entry is right, and emits every transition; the real Projective/Affine code is run on every projective representative of the operands. Full-size: traces of shipped curves with raw coordinates validated by the specification's abstraction functions (on-curve and T*Z = X*Y invariants included).",
         "note": "Toy curves cover a=0 / a!=0, cofactors 1..8, 2-torsion, base fields F_p, F_{p^2}, F_{p^3}; complete and incomplete Edwards curves. The abstraction function in the harness uses the library's field inversion (checked by C01/C02)."},
 "C04": {"text": "CurveMachine.Mul is defined as k.P by double-and-add on the specification's own law; TLC explores all (k,P) for k up to 2r+2 on toy curves and the harness requires every multiplication path to produce that point. Full-size traces use boundary scalars including values at and above r and 2^(64N)-1.",
         "note": "GLV: curves whose mul_projective is GLV-based are only required to be right on the prime-order subgroup; the behaviour outside is a recorded known finding. There are no toy GLV configurations (GLV parameters need a curve with an efficient endomorphism and a lattice basis); the decomposition is validated at full size as a relation."},
 "C12": {"text": "Subgroup membership is defined as r.P = O and cofactor clearing as multiplication by one fixed integer; TLC explores all points of toy curves with cofactor > 1, and shipped curves are validated on points built from arbitrary coordinates.",
         "note": "Effective cofactors of optimised maps are constants of the check (RFC 9380 for BLS12-381); curve crates under /repo/curves are covered through vh-curves when built."},
 "C15": {"text": "BigIntMachine defines every BigInteger operation on arbitrary-precision naturals modulo 2^(64N) with exact carry/borrow flags, and the (w-)NAF as the unique recoding computed on unbounded integers (TLC checks that it satisfies the digit constraints and reconstructs, in every explored state). TLC explores the machine exhaustively over the limb-boundary alphabet and every transition is replayed on the real BigInt<N>; random+boundary traces are validated in the other direction.",
         "note": "Operands are boundary-exhaustive + sampled, not all of 2^(64N). Window sizes above 20 are not modelled (digits must fit TLC integers). doc(hidden) const helpers (const_num_bits, two_adic_valuation) are only used inside their documented preconditions."},
 "C01": {"text": "TLC explores FieldMachine over toy prime fields exhaustively (every operand tuple, every action) and checks the field axioms on the specification's own definitions; every explored transition is replayed on the real ark-ff code (derive-macro and hand-written trait-default configurations, every API variant). For full-size moduli (shipped fields and a zoo of 1..13-limb primes with/without spare bit, no-carry-eligible or not, Mersenne, Goldilocks, 2^255-19) seeded random and boundary programs are recorded from the real code and validated by TLC as behaviours of the same machine over arbitrary-precision naturals; raw Montgomery limbs are decoded by the specification and must be canonical.",
         "note": "Exhaustive only for moduli < 2^14; full-size configurations are sampled (boundary alphabet + random). Trusted: TLC, the BigNat/Tower Java accelerators after their self-tests, the harness's construction of raw Montgomery limbs with num-bigint."},
 "C02": {"text": "Same machine instantiated over towers: TLC checks the tower axioms (ring laws, Frobenius = p-power homomorphism of the right period, multiplicative norm, Euler criterion = existence of a root) on toy towers Fp2/Fp3/Fp4/Fp6 (both)/Fp12 and emits every transition over all elements (or the <=2-nonzero-coordinate alphabet for towers above 3000 elements); all are replayed on the real templates. BLS12-381 Fq2/Fq6/Fq12 and MNT6 Fq3 traces are validated against schoolbook arithmetic modulo the binomials over BigNat, Frobenius against x^(p^k).",
         "note": "Toy towers exercise the generic templates with toy Frobenius tables (re-derived by the specification's definition x^p); shipped tables are exercised by the full-size traces. Sparse pairing multiplications and cyclotomic operations: see evidence extra_actions."},
}
