#!/bin/sh
# usage: tlcrun.sh <dir-with-module> <Module> [tlc args...]
# Runs TLC with the BigNat/Hash Java overrides on the classpath and spec/lib, spec/mach,
# spec/alg on the TLA-Library path.  A scratch metadir is used and removed.
V=/verif
d="$1"; m="$2"; shift 2
stale=0
for j in $V/spec/java/*.java; do c=$V/spec/java/classes/$(basename $j .java).class; [ -f $c -a $c -nt $j ] || stale=1; done
[ $stale = 0 ] || (mkdir -p $V/spec/java/classes && javac -cp /opt/veriftools/tla/tla2tools.jar -d $V/spec/java/classes $V/spec/java/*.java) || exit 2
meta=$(mktemp -d /tmp/tlcmeta.XXXXXX)
cd "$d" || exit 2
java -XX:+UseParallelGC -Xss1g ${TLC_XMX:--Xmx8g} ${TLC_JVM_OPTS} \
  -cp $V/spec/java/classes:/opt/veriftools/tla/tla2tools.jar:/opt/veriftools/tla/CommunityModules-deps.jar \
  -DTLA-Library=$V/spec/lib:$V/spec/mach:$V/spec/alg:$V/spec/mc:$V/spec/trace \
  tlc2.TLC -metadir "$meta" -cleanup -noGenerateSpecTE "$@" "$m"
rc=$?
rm -rf "$meta"
exit $rc
