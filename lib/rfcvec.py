#!/usr/bin/env python3
"""Converts the RFC 9380 vector files that ship with /repo into spec/toy/rfc_vectors.json (byte arrays, BigNat numbers)."""
import json, glob
def hexbytes(h): return list(bytes.fromhex(h))
def bignat(n):
    out = []
    while n: out.append(n & 255); n >>= 8
    return out
xmd = []
for f in sorted(glob.glob("/repo/ff/src/fields/field_hashers/expander/testdata/expand_message_xmd_*.json")):
    d = json.load(open(f))
    h = d["hash"].lower()
    for t in d["tests"]:
        xmd.append({"hash": h, "msg": list(t["msg"].encode()), "dst": list(d["DST"].encode()), "len": int(t["len_in_bytes"], 16), "out": hexbytes(t["uniform_bytes"])})
h2f = []
for f in sorted(glob.glob("/repo/test-curves/src/testdata/*.json")):
    d = json.load(open(f))
    p = int(d["field"]["p"], 16); m = int(d["field"]["m"], 16)
    for v in d["vectors"]:
        us = []
        for u in v["u"]:
            parts = [int(x, 16) for x in u.split(",")]
            us.append(bignat(parts[0]) if m == 1 else [bignat(x) for x in parts])
        h2f.append({"hash": d["hash"], "p": bignat(p), "m": m, "msg": list(v["msg"].encode()), "dst": list(d["dst"].encode()), "u": us})
json.dump({"xmd": xmd, "h2f": h2f}, open("/verif/spec/toy/rfc_vectors.json", "w"))
print(len(xmd), "xmd vectors,", len(h2f), "hash_to_field vectors")
