#!/bin/bash
# usage: confirm_seed.sh <worktree> <seed-id> <property>
# Confirms a seeded change independently: existing suite passes with it, demo fails with it and
# passes without it; stores patch, demo, notes and the confirmation log under /verif/seeded/<seed-id>/.
wt=$1; id=$2; prop=$3
out=/verif/seeded/$id; mkdir -p $out
cp $wt/seeded_out/patch.diff $out/patch.diff
cp $wt/seeded_out/notes.md $out/notes.md 2>/dev/null
rm -rf $out/demo; mkdir -p $out/demo
if [ -d $wt/seeded_out/demo ]; then cp -r $wt/seeded_out/demo/. $out/demo/; elif [ -d $wt/demo ]; then cp -r $wt/demo/. $out/demo/; fi
rm -rf $out/demo/target
log=$out/confirm.log; : > $log
cd $wt || exit 2
echo "== suite with change" >> $log
CARGO_TARGET_DIR=$wt/target timeout 3000 cargo nextest run --workspace --no-fail-fast --offline --test-threads 6 > $out/suite.log 2>&1
grep -E "Summary|FAIL " $out/suite.log | sort | uniq | head -20 >> $log
demo=$wt/demo
if [ -f $demo/Cargo.toml ]; then
  echo "== demo with change" >> $log
  (cd $demo && CARGO_TARGET_DIR=$wt/target-demo timeout 1500 cargo test --offline --release 2>&1 | grep -E "^test result|FAILED|panicked|error" | head -10; (cd $demo && CARGO_TARGET_DIR=$wt/target-demo timeout 600 cargo run --offline --release 2>&1 | tail -3)) >> $log 2>&1
  git diff > $out/.applied.diff; git apply -R $out/.applied.diff
  echo "== demo without change" >> $log
  (cd $demo && CARGO_TARGET_DIR=$wt/target-demo timeout 1500 cargo test --offline --release 2>&1 | grep -E "^test result|FAILED|panicked|error" | head -10; (cd $demo && CARGO_TARGET_DIR=$wt/target-demo timeout 600 cargo run --offline --release 2>&1 | tail -3)) >> $log 2>&1
  git apply $out/.applied.diff; rm -f $out/.applied.diff
fi
echo "== done" >> $log
