#!/usr/bin/env python3
"""Writes /verif/MANIFEST.json from the list of properties that have a plan in lib/plans.py."""
import json, sys, os
sys.path.insert(0, os.path.dirname(os.path.abspath(__file__)))
import plans
props = [json.loads(l) for l in open("/verif/properties.jsonl")]
checks = []
for p in props:
    pid = p["id"]
    if pid not in plans.PLANS: continue
    meta = plans.META.get(pid, {})
    checks.append({
        "property_id": pid,
        "quick_cmd": "./check %s --tier quick" % pid,
        "thorough_cmd": "./check %s --tier thorough" % pid,
        "evidence_file": "/verif/evidence/%s.json" % pid,
        "replay_cmd_template": "./check %s --replay {path}" % pid,
        "engine": "tlc+vh-core",
        "level_claimed": {"category": "model_checking",
                          "text": meta.get("text", ""), "design_ref": "DESIGN.md section 3, " + pid},
        "level_note": meta.get("note", ""),
        "technique": meta.get("technique", "TLA+ specification checked by TLC; TLC-emitted transitions replayed on the real code (toy configurations, exhaustive) and traces of the real code validated by TLC (full-size configurations)"),
    })
na = [{"property_id": p["id"], "reason": plans.NOT_APPLICABLE.get(p["id"], "check not built yet (framework under construction)")}
      for p in props if p["id"] not in plans.PLANS]
m = {
 "version": 1,
 "setup_cmd": "cd /verif && python3 lib/mkcatalogue.py && python3 lib/gen_toy.py && python3 lib/gen_zoo.py && ./check selftest-bignat && ./check build",
 "hooks": {"guard": "arkworks_rs_algebra_verif",
           "enable": "rustflags --cfg arkworks_rs_algebra_verif in /verif/harness/.cargo/config.toml (the harness builds /repo's crates as path dependencies)",
           "baseline_off_cmd": "cd /repo && cargo test --workspace --no-fail-fast --offline",
           "source_commits": plans.HOOK_COMMITS, "add_only": True},
 "engines": [{"name": "tlc+vh-core", "path": "/verif/check",
              "serves_properties": [c["property_id"] for c in checks],
              "kind_free_text": "TLA+ specification (spec/) model-checked by TLC 1.8; Rust harness (harness/vh-core) replays TLC-emitted transitions on the real arkworks code and records traces of the real code that TLC validates against the specification"}],
 "checks": checks,
 "notes": "See DESIGN.md. Fixes of genuine defects are 'fix:' commits in /repo, listed in known_findings.json with status fixed.",
 "not_applicable": na,
}
json.dump(m, open("/verif/MANIFEST.json", "w"), indent=1)
print("MANIFEST: %d checks, %d not claimed" % (len(checks), len(na)))
