"""Toy elliptic curves for the catalogue.  Orders, subgroup orders, cofactors and generators are
found by brute force here and re-derived by TLC (MC_Curve invariant CatalogueOK) before use."""
from pyfield import *

PRIMESET = {3, 5, 7, 11, 13, 17, 19, 23, 29, 31, 37, 43, 61, 97, 101, 127, 193, 251, 257, 577, 12289, 18433, 40961}

class EC:
    def __init__(self, T, k, kind, a, b):
        self.T, self.k, self.kind, self.a, self.b = T, k, kind, a, b   # b is d for "te"
        self.zero = T.zero(k); self.one = T.one(k)
    def f(self, op, *xs): return getattr(self.T, op)(self.k, *xs)
    def on_curve(self, P):
        T, k = self.T, self.k
        if self.kind == "sw":
            if P == "inf": return True
            x, y = P
            return T.mul(k, y, y) == T.add(k, T.add(k, T.mul(k, x, T.mul(k, x, x)), T.mul(k, self.a, x)), self.b)
        x, y = P
        x2, y2 = T.mul(k, x, x), T.mul(k, y, y)
        return T.add(k, T.mul(k, self.a, x2), y2) == T.add(k, self.one, T.mul(k, self.b, T.mul(k, x2, y2)))
    def identity(self): return "inf" if self.kind == "sw" else [self.zero, self.one]
    def neg(self, P):
        if self.kind == "sw": return P if P == "inf" else [P[0], self.T.neg(self.k, P[1])]
        return [self.T.neg(self.k, P[0]), P[1]]
    def add(self, P, Q):
        T, k = self.T, self.k
        if self.kind == "sw":
            if P == "inf": return Q
            if Q == "inf": return P
            if P[0] == Q[0]:
                if P[1] != Q[1] or P[1] == self.zero: return "inf"
                lam = T.mul(k, T.add(k, T.mul(k, T.from_prime(k, 3), T.mul(k, P[0], P[0])), self.a), T.inv(k, T.add(k, P[1], P[1])))
            else:
                lam = T.mul(k, T.sub(k, Q[1], P[1]), T.inv(k, T.sub(k, Q[0], P[0])))
            x3 = T.sub(k, T.sub(k, T.mul(k, lam, lam), P[0]), Q[0])
            return [x3, T.sub(k, T.mul(k, lam, T.sub(k, P[0], x3)), P[1])]
        t = T.mul(k, self.b, T.mul(k, T.mul(k, P[0], Q[0]), T.mul(k, P[1], Q[1])))
        d1, d2 = T.add(k, self.one, t), T.sub(k, self.one, t)
        if d1 == self.zero or d2 == self.zero: return None
        return [T.mul(k, T.add(k, T.mul(k, P[0], Q[1]), T.mul(k, P[1], Q[0])), T.inv(k, d1)),
                T.mul(k, T.sub(k, T.mul(k, P[1], Q[1]), T.mul(k, self.a, T.mul(k, P[0], Q[0]))), T.inv(k, d2))]
    def mul(self, n, P):
        R = self.identity(); B = P
        while n:
            if n & 1:
                R = self.add(R, B)
                if R is None: return None
            n >>= 1
            if n:
                B = self.add(B, B)
                if B is None: return None
        return R
    def points(self):
        E = list(self.T.elems(self.k))
        pts = ["inf"] if self.kind == "sw" else []
        if self.kind == "sw":
            sq = {}
            for y in E: sq.setdefault(str(self.T.mul(self.k, y, y)), []).append(y)
            for x in E:
                rhs = self.T.add(self.k, self.T.add(self.k, self.T.mul(self.k, x, self.T.mul(self.k, x, x)), self.T.mul(self.k, self.a, x)), self.b)
                for y in sq.get(str(rhs), []): pts.append([x, y])
        else:
            for x in E:
                for y in E:
                    if self.on_curve([x, y]): pts.append([x, y])
        return pts

def describe(fields, cid, fid, kind, a, b, want_r=None):
    e = fields[fid]
    T = Tower(e["p"], e["lv"]); k = len(e["lv"])
    emb = lambda v: T.from_prime(k, v % e["p"]) if isinstance(v, int) else v
    C = EC(T, k, kind, emb(a), emb(b))
    pts = C.points()
    n = len(pts)
    if kind == "te":
        # group order = order of the birationally equivalent Montgomery curve B y^2 = x^3 + A x^2 + x
        amd = T.sub(k, C.a, C.b)
        if amd == T.zero(k): return None
        MA = T.mul(k, T.from_prime(k, 2), T.mul(k, T.add(k, C.a, C.b), T.inv(k, amd)))
        MB = T.mul(k, T.from_prime(k, 4), T.inv(k, amd))
        E = list(T.elems(k)); cnt = 1
        sqs = {}
        for y in E: sqs[str(T.mul(k, MB, T.mul(k, y, y)))] = sqs.get(str(T.mul(k, MB, T.mul(k, y, y))), 0) + 1
        for x in E:
            rhs = T.add(k, T.add(k, T.mul(k, x, T.mul(k, x, x)), T.mul(k, MA, T.mul(k, x, x))), x)
            cnt += sqs.get(str(rhs), 0)
        complete = T.is_square(k, C.a) and not T.is_square(k, C.b)
        if complete: assert cnt == n, (cid, cnt, n)
        n = cnt
    fs = factor(n)
    cands = [q for q in sorted(fs, reverse=True) if q in PRIMESET and fs[q] == 1]
    if want_r: cands = [want_r]
    if not cands: return None
    r = cands[0]; h = n // r
    if h % r == 0: return None
    G = None
    for P in pts:
        if kind == "te":
            Q = P
            ok = True
            # the law must be defined along the way (complete curves always are)
        Q = C.mul(h, P)
        if Q is not None and Q != C.identity() and C.mul(r, Q) == C.identity():
            G = Q; break
    if G is None: return None
    d = {"kind": kind, "field": fid, "a": C.a, ("b" if kind == "sw" else "d"): C.b, "r": r, "h": h, "order": n,
         "gen": G, "cofactor_inv": pow(h, -1, r), "scalar_field": "f%d" % r}
    if kind == "te":
        # complete iff a is a square and d is not
        d["complete"] = T.is_square(k, C.a) and not T.is_square(k, C.b)
        amd = T.sub(k, C.a, C.b)
        d["mont_a"] = T.mul(k, T.from_prime(k, 2), T.mul(k, T.add(k, C.a, C.b), T.inv(k, amd)))
        d["mont_b"] = T.mul(k, T.from_prime(k, 4), T.inv(k, amd))
    return d

def build(fields):
    curves = {}
    def add(cid, fid, kind, a, b, want_r=None):
        d = describe(fields, cid, fid, kind, a, b, want_r)
        assert d is not None, ("no usable subgroup", cid)
        curves[cid] = d
    for (p, a, b) in [(13, 0, 2), (19, 0, 2), (31, 0, 3), (13, 0, 4), (19, 0, 8), (13, 1, 6), (17, 1, 3), (13, 1, 4),
                      (13, 1, 0), (31, 1, 29), (23, 1, 16), (23, 1, 4)]:
        add("sw%d_%d_%d" % (p, a, b), "f%d" % p, "sw", a, b)
    for (p, a, d) in [(13, 1, 7), (13, 12, 6), (17, 16, 6), (29, 1, 3), (29, 28, 2), (29, 1, 2), (31, 1, 6)]:
        add("te%d_%d_%d" % (p, a, d), "f%d" % p, "te", a, d)
    # incomplete twisted Edwards curves (a non-square): used on the prime-order subgroup only
    def search_te_incomplete(p, count):
        found = 0
        T = Tower(p, [])
        for a in range(2, p):
            if T.is_square(0, a): continue
            for d in range(2, p):
                if d == a: continue
                x = describe(fields, "", "f%d" % p, "te", a, d)
                if x and x["r"] >= 5 and not x["complete"]:
                    curves["te%d_%d_%d" % (p, a, d)] = x; found += 1
                    if found == count: return
                    break
    search_te_incomplete(13, 1); search_te_incomplete(29, 1)
    # curves over extension fields: first b (with non-zero second coordinate) giving a usable subgroup
    def search_ext(fid, a, tag, maxtry=400):
        e = fields[fid]; T = Tower(e["p"], e["lv"]); k = len(e["lv"])
        tries = 0
        for b in T.elems(k):
            if b == T.zero(k) or (isinstance(b, list) and all(c == T.zero(k - 1) for c in b[1:])): continue
            tries += 1
            if tries > maxtry: break
            x = describe(fields, "", fid, "sw", T.from_prime(k, a), b)
            if x and x["r"] >= 5:
                curves["sw_%s_%s" % (fid, tag)] = x; return
        raise Exception("no curve over " + fid)
    # curves over fields whose bit length leaves 0, 1, 2 spare bits in the top byte (serialization flags)
    def search_prime(p, kind):
        T = Tower(p, [])
        for b in range(1, p):
            if kind == "sw":
                x = describe(fields, "", "f%d" % p, "sw", 1 if b % 2 else 0, b)
            else:
                if T.is_square(0, b): continue
                x = describe(fields, "", "f%d" % p, "te", 1, b)
            if x and x["r"] >= 5 and x["h"] >= 1 and (kind == "sw" or x["complete"]):
                key = ("sw%d_%d_%d" % (p, (1 if b % 2 else 0), b)) if kind == "sw" else ("te%d_1_%d" % (p, b))
                curves[key] = x; return key
        raise Exception("no curve over f%d" % p)
    for pp in (61, 127, 251):
        search_prime(pp, "sw"); search_prime(pp, "te")
    search_ext("f7_2", 0, "a0"); search_ext("f7_2", 1, "a1"); search_ext("f13_2", 0, "a0"); search_ext("f7_3", 0, "a0")
    return {"curves": curves}
