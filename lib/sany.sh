#!/bin/sh
# usage: sany.sh <file.tla>
exec java -cp /opt/veriftools/tla/tla2tools.jar:/opt/veriftools/tla/CommunityModules-deps.jar -DTLA-Library=/verif/spec/lib:/verif/spec/mach:/verif/spec/alg:/verif/spec/mc:/verif/spec/trace tla2sany.SANY "$@"
