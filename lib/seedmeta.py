#!/usr/bin/env python3
"""usage: seedmeta.py <seed-id> <property> <detected-by> <needs...>   writes /verif/seeded/<seed-id>/meta.json"""
import json, sys, os
sid, prop, detected = sys.argv[1], sys.argv[2], sys.argv[3]
needs = " ".join(sys.argv[4:])
d = "/verif/seeded/" + sid
confirm = open(d + "/confirm.log").read() if os.path.exists(d + "/confirm.log") else ""
json.dump({"id": sid, "breaks_property": prop, "needs_to_manifest": needs,
           "confirmed": {"suite_with_change": [l for l in confirm.split("\n") if "Summary" in l or "FAIL " in l],
                         "confirm_log": "confirm.log (existing suite with the change; demo with and without the change)"},
           "ran": ["lib/confirm_seed.sh <scratch worktree> %s %s" % (sid, prop),
                   "git -C /repo apply seeded/%s/patch.diff && ./check %s --tier quick ; git -C /repo checkout -- ." % (sid, prop)],
           "detected_by": detected}, open(d + "/meta.json", "w"), indent=1)
print("wrote", d + "/meta.json")
