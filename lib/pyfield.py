"""Plain-Python finite-field helpers used ONLY to derive toy-configuration constants
(generators, Frobenius tables, curve orders) for code generation.  Every derived constant is
re-checked by TLC (spec/mc/MC_Catalogue) before use; this file is not an oracle."""

def is_prime(n):
    if n < 2: return False
    i = 2
    while i * i <= n:
        if n % i == 0: return False
        i += 1
    return True

def factor(n):
    f = {}
    d = 2
    while d * d <= n:
        while n % d == 0:
            f[d] = f.get(d, 0) + 1
            n //= d
        d += 1
    if n > 1: f[n] = f.get(n, 0) + 1
    return f

def primitive_root(p):
    fs = factor(p - 1)
    for g in range(2, p):
        if all(pow(g, (p - 1) // q, p) != 1 for q in fs):
            return g
    return 1

class Tower:
    """F = {'p': p, 'lv': [{'deg': d, 'nr': elem}, ...]}; elements nested lists."""
    def __init__(self, p, lv):
        self.p, self.lv = p, lv
    def zero(self, k): return 0 if k == 0 else [self.zero(k - 1) for _ in range(self.lv[k - 1]['deg'])]
    def one(self, k):
        if k == 0: return 1
        return [self.one(k - 1)] + [self.zero(k - 1) for _ in range(self.lv[k - 1]['deg'] - 1)]
    def add(self, k, a, b):
        if k == 0: return (a + b) % self.p
        return [self.add(k - 1, x, y) for x, y in zip(a, b)]
    def sub(self, k, a, b):
        if k == 0: return (a - b) % self.p
        return [self.sub(k - 1, x, y) for x, y in zip(a, b)]
    def neg(self, k, a): return self.sub(k, self.zero(k), a)
    def mul(self, k, a, b):
        if k == 0: return (a * b) % self.p
        d = self.lv[k - 1]['deg']; nr = self.lv[k - 1]['nr']
        c = [self.zero(k - 1) for _ in range(2 * d - 1)]
        for i in range(d):
            for j in range(d):
                c[i + j] = self.add(k - 1, c[i + j], self.mul(k - 1, a[i], b[j]))
        r = c[:d]
        for m in range(d, 2 * d - 1):
            r[m - d] = self.add(k - 1, r[m - d], self.mul(k - 1, nr, c[m]))
        return r
    def pow(self, k, a, e):
        r = self.one(k); b = a
        while e > 0:
            if e & 1: r = self.mul(k, r, b)
            b = self.mul(k, b, b); e >>= 1
        return r
    def extdeg(self, k):
        r = 1
        for l in self.lv[:k]: r *= l['deg']
        return r
    def order(self, k): return self.p ** self.extdeg(k)
    def inv(self, k, a): return self.pow(k, a, self.order(k) - 2)
    def from_prime(self, k, s):
        if k == 0: return s % self.p
        return [self.from_prime(k - 1, s)] + [self.zero(k - 1) for _ in range(self.lv[k - 1]['deg'] - 1)]
    def elems(self, k):
        if k == 0:
            for x in range(self.p): yield x
        else:
            import itertools
            d = self.lv[k - 1]['deg']
            subs = list(self.elems(k - 1))
            # coefficient of X^0 varies fastest
            for t in itertools.product(subs, repeat=d):
                yield list(reversed(t))
    def is_square(self, k, a):
        if a == self.zero(k): return True
        return self.pow(k, a, (self.order(k) - 1) // 2) == self.one(k)
    def is_cube(self, k, a):
        if a == self.zero(k): return True
        q = self.order(k)
        if (q - 1) % 3 != 0: return True
        return self.pow(k, a, (q - 1) // 3) == self.one(k)
