#!/usr/bin/env python3
"""Binding self-test (./check selftest-binding): demonstrates that the specification is bound to the
implementation in both directions.

 B (implementation -> specification): a trace recorded from the real code is accepted by TLC; the same trace with
   (1) one logged result corrupted, (2) one state-changing event dropped, (3) two adjacent state-changing events
   swapped is REJECTED (TLC reports a mismatch) - for every trace specification.
 A (specification -> implementation): the transitions TLC emits for a toy model are accepted by the harness; the same
   file with the post-state of one transition corrupted is REJECTED by the harness.

Exit 0 when every unmutated input is accepted and every mutant rejected; 1 otherwise."""
import json, os, sys, subprocess, tempfile, shutil, copy
sys.path.insert(0, os.path.dirname(os.path.abspath(__file__)))
from checklib import *

def bump(v):
    """corrupt the first list-of-ints leaf (byte string) or int/bool/str scalar found in v; returns (new, changed?)"""
    if isinstance(v, bool): return (not v), True
    if isinstance(v, int): return v + 1, True
    if isinstance(v, str):
        if v in ("some", "none"): return ("none" if v == "some" else "some"), True
        if len(v) > 0 and all(c in "0123456789abcdef" for c in v): return ("f" if v[0] != "f" else "e") + v[1:], True
        return v, False
    if isinstance(v, list):
        if len(v) == 0: return [1], True
        if all(isinstance(x, int) and not isinstance(x, bool) for x in v): return [(v[0] + 1) % 256] + v[1:], True
        for i, x in enumerate(v):
            if isinstance(x, int) and not isinstance(x, bool) and i == 0 and len(v) == 2 and not isinstance(v[1], int):
                continue          # [register, value] pair: corrupt the value, not the register index
            n, ch = bump(x)
            if ch: return v[:i] + [n] + v[i+1:], True
        return v, False
    if isinstance(v, dict):
        for k in v:
            n, ch = bump(v[k])
            if ch:
                w = dict(v); w[k] = n; return w, True
    return v, False

RESULT_FIELDS = ["w", "fp", "eqs", "ret", "post", "r2", "c1", "lambda", "cofactor_inv", "gen"]
def corrupt(ev):
    if ev.get("op") in ("load", "reset", "gt_reset"): return None      # values ENTER the machine here: nothing to contradict
    for f in RESULT_FIELDS:
        if f == "w" and not ev.get("w"): continue
        if f == "fp" and "eqs" in ev: continue                           # a fingerprint is only comparable with earlier ones; corrupt the pattern
        if f in ev:
            n, ch = bump(ev[f])
            if ch:
                e = dict(ev); e[f] = n; return e
    return None

def validate(module, lines):
    tmp = tempfile.mkdtemp(prefix="vfS_")
    try:
        t = tmp + "/t.ndjson"
        open(t, "w").write("\n".join(json.dumps(l) for l in lines) + "\n")
        res = run_tlc("trace", module, env={"TRACE": t, "TLC_JVM_OPTS": "-Dtlc2.tool.queue.IStateQueue=StateDeque"}, workers=1, timeout=900)
        mism = sum(1 for ln in res["out"].split("\n") if MISMATCH_RE.match(ln.strip()))
        done = any(DONE_RE.match(ln.strip()) for ln in res["out"].split("\n"))
        return mism, done and not tlc_failed(res), res
    finally:
        shutil.rmtree(tmp, ignore_errors=True)

def nontrivial(ev):
    w = ev.get("w")
    def triv(v):      # zero element, or a projective point with Z = 0 (every such triple denotes the identity)
        return v in ([], [[], []], [[], [], []]) or (isinstance(v, list) and len(v) in (3, 4) and all(isinstance(c, list) for c in v) and v[-1] in ([], [[], []], [[], [], []]))
    if w: return any(not triv(x[1]) for x in w if isinstance(x, list) and len(x) == 2)
    return ev.get("zero") is False
def state_changing(ev):
    return nontrivial(ev) and ev.get("op") in ("add", "sub", "mul", "dbl", "sqr", "neg", "inv", "gt_mul", "gt_inv", "shl", "shr", "xor", "double", "mul2", "div2") and "panic" not in ev

def selftest_B(binp, machine, module, cfg, n, rec_args=()):
    tmp = tempfile.mkdtemp(prefix="vfS_")
    out = []
    try:
        t = tmp + "/trace.ndjson"
        r = subprocess.run([binp, "record", machine, "--cfg", cfg, "--seed", "3", "--n", str(n), "--out", t] + list(rec_args), capture_output=True, text=True, timeout=900)
        if r.returncode != 0: raise ToolError("recorder failed: " + r.stderr[-500:])
        lines = [json.loads(l) for l in open(t)]
    finally:
        shutil.rmtree(tmp, ignore_errors=True)
    mism, ok, res = validate(module, lines)
    out.append(("%s/%s original trace (%d events) accepted" % (module, cfg, len(lines)), mism == 0 and ok))
    if not (mism == 0 and ok): return out
    # (1) corrupt one logged result, at three positions
    idx = [i for i in range(1, len(lines)) if corrupt(lines[i]) is not None and "panic" not in lines[i] and (nontrivial(lines[i]) or not lines[i].get("w"))]
    for i in [idx[len(idx) // 5], idx[len(idx) // 2], idx[-1]] if idx else []:
        m = lines[:i] + [corrupt(lines[i])] + lines[i+1:]
        mism, ok, _ = validate(module, m)
        out.append(("%s/%s corrupted result at line %d (%s) rejected" % (module, cfg, i + 1, lines[i].get("op")), mism > 0))
    # (2) drop a state-changing event whose effect is observed later, (3) swap two adjacent ones
    sc = [i for i in range(len(lines) // 3, len(lines) - 1) if state_changing(lines[i])]
    tried = 0; rejected = 0
    for i in sc[: 12]:
        m = lines[:i] + lines[i+1:]
        mism, ok, _ = validate(module, m); tried += 1; rejected += 1 if mism > 0 else 0
    if tried: out.append(("%s/%s dropped event: %d of %d mutants rejected (a dropped event whose register is overwritten before it is read is equivalent)" % (module, cfg, rejected, tried), rejected * 2 >= tried))
    tried = 0; rejected = 0
    for i in sc[: 12]:
        if state_changing(lines[i + 1]) and lines[i + 1].get("d") == lines[i].get("d") and lines[i + 1] != lines[i]:
            m = lines[:i] + [lines[i + 1], lines[i]] + lines[i+2:]
            mism, ok, _ = validate(module, m); tried += 1; rejected += 1 if mism > 0 else 0
    if tried: out.append(("%s/%s swapped adjacent events on one register: %d of %d mutants rejected" % (module, cfg, rejected, tried), rejected > 0))
    return out

def selftest_A(binp, machine, module, cfg, mode, env_extra=None):
    tmp = tempfile.mkdtemp(prefix="vfS_")
    out = []
    try:
        emit = tmp + "/emit.ndjson"
        env = {"CFG": cfg, "MODE": mode, "EMIT_FILE": emit}; env.update(env_extra or {})
        res = run_tlc("mc", module, env=env, workers=4, timeout=900)
        if tlc_failed(res): raise ToolError("TLC failed: " + res["out"][-1000:])
        lines = open(emit).read().strip().split("\n")
        def replay(ls):
            r = subprocess.run([binp, "replay", machine, "--cfg", cfg], input="\n".join(ls) + "\n", capture_output=True, text=True, timeout=900)
            if r.returncode != 0: return -1
            return len(json.loads(r.stdout.strip().split("\n")[-1])["mismatches"])
        out.append(("%s/%s/%s: %d emitted transitions accepted by the real code" % (module, cfg, mode, len(lines)), replay(lines) == 0))
        rej = 0; tried = 0
        for i in (len(lines) // 7, len(lines) // 2, len(lines) - 1):
            t = json.loads(lines[i])
            for f in ("post", "ev"):
                if f not in t: continue
                n, ch = bump(t[f] if f == "post" else {k: v for k, v in t[f].items() if k == "ret"})
                if not ch: continue
                t2 = dict(t)
                if f == "post": t2["post"] = n
                else: t2["ev"] = dict(t["ev"], **n)
                tried += 1
                rej += 1 if replay(lines[:i] + [json.dumps(t2)] + lines[i+1:]) != 0 else 0
                break
        out.append(("%s/%s/%s: corrupted expected post-state / return value: %d of %d mutants rejected" % (module, cfg, mode, rej, tried), tried > 0 and rej == tried))
    finally:
        shutil.rmtree(tmp, ignore_errors=True)
    return out

def main():
    b = build(curves=False)
    res = []
    res += selftest_B(b, "field", "Trace_Field", "bls12_381_fq", 150)
    res += selftest_B(b, "field", "Trace_Field", "bls12_381_fq2", 120)
    res += selftest_B(b, "bigint", "Trace_BigInt", "4", 150)
    res += selftest_B(b, "curve", "Trace_Curve", "bls12_381_g1", 80)
    res += selftest_B(b, "pairing", "Trace_Pairing", "bls12_381", 150)
    res += selftest_B(b, "h2c", "Trace_H2C", "bls12_381_g1", 30)
    res += selftest_B(b, "config", "Trace_Config", "t_bls12_381", 0)
    res += selftest_B(b, "polybig", "Trace_Poly", "bls12_381_fr", 40, rec_args=["--maxlog", "10"])
    res += selftest_B(b, "curve", "Trace_Curve", "bls12_381_g1", 30, rec_args=["--profile", "msm"])
    res += selftest_A(b, "field", "MC_Field", "f13", "arith")
    res += selftest_A(b, "curve", "MC_Curve", "sw13a", "arith") if False else []
    res += selftest_A(b, "bigint", "MC_BigInt", "1", "arith") if False else []
    bad = 0
    for what, ok in res:
        print(("ok   " if ok else "FAIL ") + what, flush=True)
        bad += 0 if ok else 1
    json.dump({"results": [{"what": w, "ok": o} for w, o in res]}, open(V + "/evidence/selftest-binding.json", "w"), indent=1)
    return 0 if bad == 0 else 1

if __name__ == "__main__":
    sys.exit(main())
