"""Orchestration shared by every property check: build the harness from /repo's current tree,
run TLC models (conformance A: emit transitions, replay on real code) and trace validations
(conformance B), collect evidence, report violations / known findings."""
import glob, hashlib, json, os, re, shutil, subprocess, sys, tempfile, time, concurrent.futures as cf

V = "/verif"
HARNESS = V + "/harness"
BIN = HARNESS + "/target/release/vh-core"
TLCRUN = V + "/lib/tlcrun.sh"
GUARD = "arkworks_rs_algebra_verif"

class ToolError(Exception):
    pass

def log(*a):
    print(*a, file=sys.stderr, flush=True)

# ------------------------------------------------------------------------------------------
# build (with the stale-binary guard of DESIGN appendix C)

def repo_source_hash():
    h = hashlib.sha256()
    out = subprocess.run(["git", "-C", "/repo", "ls-files", "-co", "--exclude-standard"], capture_output=True, text=True).stdout.split("\n")
    for f in sorted(out):
        if not f or f.startswith("target/"): continue
        if not (f.endswith(".rs") or f.endswith(".toml") or f.endswith(".lock")): continue
        p = "/repo/" + f
        try:
            h.update(f.encode()); h.update(open(p, "rb").read())
        except OSError:
            pass
    return h.hexdigest()

def build(features=(), target=None, curves=False):
    """cargo build --release of the harness against /repo's working tree."""
    t0 = time.time()
    subprocess.run(["python3", V + "/lib/gen_toy.py"], check=True, capture_output=True)
    subprocess.run(["python3", V + "/lib/gen_config.py"], check=True, capture_output=True)      # C16: dumpers follow the source text of /repo
    if curves: subprocess.run(["python3", V + "/lib/gen_curves_main.py"], check=True, capture_output=True)
    if not os.path.exists(HARNESS + "/vh-core/src/gen_zoo.rs") or os.path.getsize(HARNESS + "/vh-core/src/gen_zoo.rs") < 1000:
        subprocess.run(["python3", V + "/lib/gen_zoo.py"], check=True, capture_output=True)
    tdir = HARNESS + "/" + (target or "target")
    stamp = tdir + "/.verif_src_hash"
    cur = repo_source_hash() + "|" + ",".join(features)
    if not os.path.exists(HARNESS + "/shims/bn254/Cargo.toml"):
        subprocess.run(["python3", V + "/lib/gen_shims.py"], check=True, capture_output=True)
    old = open(stamp).read() if os.path.exists(stamp) else ""
    env = dict(os.environ, CARGO_NET_OFFLINE="true")
    if "asm" in features:
        # the x86-64 assembly backend of ark-ff is selected by cfg(target_feature = "bmi2" / "adx"); RUSTFLAGS replaces the
        # rustflags of .cargo/config.toml, so the guard cfg is repeated here
        env["RUSTFLAGS"] = "--cfg arkworks_rs_algebra_verif --check-cfg cfg(arkworks_rs_algebra_verif) -C target-feature=+bmi2,+adx"
    if old != cur and os.path.exists(tdir):
        # mtimes of a restored tree may be older than the artifacts: force cargo to look again
        subprocess.run(["cargo", "clean", "--release", "-p", "ark-ff", "-p", "ark-ec", "-p", "ark-poly",
                        "-p", "ark-serialize", "-p", "ark-test-curves", "-p", "ark-ff-macros", "-p", "ark-ff-asm",
                        "-p", "ark-serialize-derive", "-p", "vh-core", "--target-dir", tdir],
                       cwd=HARNESS, env=env, capture_output=True)
    cmd = ["cargo", "build", "--release", "--offline", "--target-dir", tdir, "-p", "vh-core"]
    if curves: cmd += ["-p", "vh-curves"]
    if features: cmd += ["--features", ",".join("vh-core/" + f for f in features)]
    r = subprocess.run(cmd, cwd=HARNESS, env=env, capture_output=True, text=True)
    if r.returncode != 0:
        sys.stderr.write(r.stderr[-6000:])
        raise ToolError("harness build failed (does /repo still compile?)")
    os.makedirs(tdir, exist_ok=True)
    open(stamp, "w").write(cur)
    log("build ok in %.0fs" % (time.time() - t0))
    return tdir + "/release/vh-core"

# ------------------------------------------------------------------------------------------
# TLC

STATS_RE = re.compile(r"(\d+) states generated, (\d+) distinct states found")
INIT_RE = re.compile(r"Finished computing initial states: (\d+) distinct state")

def run_tlc(moddir, module, env=None, workers=1, timeout=1200, config=None, extra=()):
    e = dict(os.environ)
    e.update(env or {})
    cmd = ["timeout", str(timeout), TLCRUN, V + "/spec/" + moddir, module, "-workers", str(workers)]
    if config: cmd += ["-config", config]
    cmd += list(extra)
    r = subprocess.run(cmd, env=e, capture_output=True, text=True)
    out = r.stdout + r.stderr
    m = None
    for m in STATS_RE.finditer(out): pass
    mi = INIT_RE.search(out)
    res = {"rc": r.returncode, "out": out,
           "generated": int(m.group(1)) if m else 0, "distinct": int(m.group(2)) if m else 0,
           "initial": int(mi.group(1)) if mi else 0}
    return res

def tlc_failed(res):
    o = res["out"]
    return res["rc"] != 0 or "Error:" in o or "is violated" in o or "Model checking completed. No error has been found." not in o

# ------------------------------------------------------------------------------------------
# jobs

class Job:
    """Result of one unit of checking."""
    def __init__(self, name):
        self.name = name
        self.states = 0; self.transitions = 0; self.evaluations = 0; self.nontrivial = 0
        self.traces = 0; self.samples = []; self.mismatches = []; self.exhaustive = False
        self.wall = 0.0; self.note = ""; self.cmd = ""

def toy_replay(binpath, machine, module, cfg, mode, harness_cfg=None, workers=4, timeout=1500, env_extra=None, label=None, emits_all=True, threads=None):
    """threads: list of rayon pool sizes; the emitted transitions are replayed once per size (parallel build)."""
    """Conformance A: explore the toy model exhaustively with TLC, emitting every transition;
    replay all of them on the real code."""
    j = Job(label or "A:%s:%s:%s:%s" % (machine, cfg, mode, harness_cfg or cfg))
    t0 = time.time()
    tmp = tempfile.mkdtemp(prefix="vfA_")
    try:
        emit = tmp + "/emit.ndjson"
        env = {"CFG": cfg, "MODE": mode, "EMIT_FILE": emit}
        env.update(env_extra or {})
        res = run_tlc("mc", module, env=env, workers=workers, timeout=timeout)
        j.cmd = "CFG=%s MODE=%s EMIT_FILE=.. tlcrun.sh spec/mc %s -workers %d | vh-core replay %s --cfg %s" % (cfg, mode, module, workers, machine, harness_cfg or cfg)
        if tlc_failed(res):
            raise ToolError("TLC failed on %s %s/%s (specification error or timeout):\n%s" % (module, cfg, mode, res["out"][-3000:]))
        j.states = res["distinct"]; j.transitions = res["generated"] - res["initial"]
        nlines = sum(1 for _ in open(emit))
        if emits_all and nlines != j.transitions:
            raise ToolError("%s: emitted %d lines but TLC generated %d transitions" % (j.name, nlines, j.transitions))
        nemit = nlines
        intent = tmp + "/intent.json"
        for th in (threads or [None]):
            extra = ["--threads", str(th)] if th else []
            with open(emit) as f:
                try:
                    r = subprocess.run([binpath, "replay", machine, "--cfg", harness_cfg or cfg] + extra, stdin=f, capture_output=True, text=True,
                                       timeout=timeout, env=dict(os.environ, VH_INTENT=intent))
                except subprocess.TimeoutExpired:
                    r = None
            if r is None or r.returncode != 0:
                last = open(intent).read() if os.path.exists(intent) else ""
                j.mismatches.append({"kind": "transition", "machine": machine, "cfg": harness_cfg or cfg, "threads": th,
                                     "error": "harness %s while replaying" % ("hung (timeout)" if r is None else "died rc=%d: %s" % (r.returncode, r.stderr[-500:])),
                                     "transition": json.loads(last) if last.strip() else None})
            else:
                rep = json.loads(r.stdout.strip().split("\n")[-1])
                if rep["transitions"] != nemit:
                    raise ToolError("%s: harness saw %d transitions, TLC emitted %d" % (j.name, rep["transitions"], nemit))
                j.evaluations += rep["evaluations"]; j.nontrivial = max(j.nontrivial, rep["distinct_nontrivial"])
                j.samples = rep["samples"][:2]
                for m in rep["mismatches"]:
                    m.update({"kind": "transition", "machine": machine, "cfg": harness_cfg or cfg, "threads": th})
                    j.mismatches.append(m)
        j.exhaustive = True
    finally:
        shutil.rmtree(tmp, ignore_errors=True)
    j.wall = time.time() - t0
    return j

MISMATCH_RE = re.compile(r'^<<"MISMATCH", "(.*)">>$')
DONE_RE = re.compile(r'^<<"TRACE-DONE", "(.*)">>$')

def unescape(s):
    return s.replace('\\"', '"').replace("\\\\", "\\")

def trace_validate(binpath, machine, module, cfg, seed, n, timeout=900, rec_args=(), label=None, keep=None, threads=None):
    """Conformance B: record a seeded program on the real code, validate the trace with TLC."""
    j = Job(label or "B:%s:%s:seed%d:n%d" % (machine, cfg, seed, n))
    t0 = time.time()
    tmp = tempfile.mkdtemp(prefix="vfB_")
    try:
        trace = tmp + "/trace.ndjson"; intent = tmp + "/intent.json"
        rcmd = [binpath, "record", machine, "--cfg", cfg, "--seed", str(seed), "--n", str(n), "--out", trace] + list(rec_args) + (["--threads", str(threads)] if threads else [])
        j.cmd = " ".join(rcmd[1:]) + " ; TRACE=.. tlcrun.sh spec/trace %s -workers 1" % module
        try:
            r = subprocess.run(rcmd, capture_output=True, text=True, timeout=timeout, env=dict(os.environ, VH_INTENT=intent))
        except subprocess.TimeoutExpired:
            r = None
        if r is None and os.path.exists(intent) and time.time() - os.path.getmtime(intent) < max(120, timeout / 5):
            # the recorder was still making progress (the intent log moved recently): the budget was too small, not a hang
            raise ToolError("recording %s did not finish within %ds (still progressing: enlarge the timeout or shrink the program)" % (j.name, timeout))
        if r is not None and r.returncode != 0 and not (os.path.exists(intent) and open(intent).read().strip()):
            # the recorder died before it announced its first event: it could not be started for this configuration
            raise ToolError("recorder for %s could not start (rc=%d): %s" % (j.name, r.returncode, (r.stderr or "")[-400:]))
        if r is None or r.returncode != 0:
            last = open(intent).read() if os.path.exists(intent) else ""
            j.mismatches.append({"kind": "trace", "machine": machine, "cfg": cfg, "seed": seed, "n": n, "rec_args": list(rec_args),
                                 "error": "implementation %s" % ("hung (no return within %ds)" % timeout if r is None else "aborted rc=%d: %s" % (r.returncode, (r.stderr or "")[-500:])),
                                 "event": json.loads(last) if last.strip() else None})
            j.wall = time.time() - t0
            return j
        rep = json.loads(r.stdout.strip().split("\n")[-1])
        j.evaluations = rep["evaluations"]; j.nontrivial = rep["distinct_nontrivial"]; j.samples = rep["samples"][:2]
        res = run_tlc("trace", module, env={"TRACE": trace, "TLC_JVM_OPTS": "-Dtlc2.tool.queue.IStateQueue=StateDeque"}, workers=1, timeout=timeout)
        done = None
        for line in res["out"].split("\n"):
            m = MISMATCH_RE.match(line.strip())
            if m:
                d = json.loads(unescape(m.group(1)))
                d.update({"kind": "trace", "machine": machine, "cfg": cfg, "seed": seed, "n": n, "rec_args": list(rec_args)})
                j.mismatches.append(d)
            m = DONE_RE.match(line.strip())
            if m: done = json.loads(unescape(m.group(1)))
        nlines = sum(1 for _ in open(trace))
        if done is None or tlc_failed(res) or done["lines"] != nlines:
            if keep: shutil.copy(trace, keep)
            raise ToolError("trace validation of %s did not run to the end (specification error or timeout):\n%s" % (j.name, res["out"][-3000:]))
        if done["mismatches"] != len(j.mismatches):
            raise ToolError("%s: mismatch count differs" % j.name)
        j.states = res["distinct"]; j.transitions = res["generated"]; j.traces = 1
    finally:
        shutil.rmtree(tmp, ignore_errors=True)
    j.wall = time.time() - t0
    return j

def model_only(module, cfg_env, workers=4, timeout=1500, label=None, config=None, moddir="mc"):
    """A TLC model whose invariants are checked on the specification itself."""
    j = Job(label or "M:%s:%s" % (module, ",".join("%s=%s" % kv for kv in sorted(cfg_env.items()))))
    t0 = time.time()
    res = run_tlc(moddir, module, env=cfg_env, workers=workers, timeout=timeout, config=config)
    j.cmd = "tlcrun.sh spec/%s %s -workers %d" % (moddir, module, workers)
    if tlc_failed(res):
        raise ToolError("TLC failed on %s (specification error or timeout):\n%s" % (j.name, res["out"][-3000:]))
    j.states = res["distinct"]; j.transitions = max(res["generated"] - res["initial"], 0); j.exhaustive = True
    j.wall = time.time() - t0
    j.out = res["out"]
    return j

def literal_jobs(cfgs, harness_cfgs):
    """C20: TLC generates the literal grid for each modulus; the literals are compiled as constants of
    the real macros (gen_lit.rs, rebuilt when the grid changes) and compared with what they must denote."""
    tmp = tempfile.mkdtemp(prefix="vfL_")
    jobs = []
    try:
        stats = {}
        for c in cfgs:
            res = run_tlc("mc", "MC_Literal", env={"CFG": c, "EMIT_FILE": "%s/%s.ndjson" % (tmp, c)}, workers=2, timeout=600)
            if tlc_failed(res): raise ToolError("TLC failed on MC_Literal %s:\n%s" % (c, res["out"][-2000:]))
            stats[c] = res
        r = subprocess.run(["python3", V + "/lib/gen_lit.py"] + ["%s=%s/%s.ndjson" % (c, tmp, c) for c in cfgs], capture_output=True, text=True)
        if r.returncode != 0: raise ToolError("gen_lit failed: " + r.stderr[-2000:])
        binpath = build()
        for hc in harness_cfgs:
            base = hc[:-1] if hc.endswith("h") else hc
            j = Job("A:literal:%s" % hc); t0 = time.time()
            j.cmd = "CFG=%s tlcrun.sh spec/mc MC_Literal | gen_lit.py | cargo build | vh-core replay literal --cfg %s" % (base, hc)
            j.states = stats[base]["distinct"]; j.transitions = stats[base]["generated"] - stats[base]["initial"]; j.exhaustive = True
            with open("%s/%s.ndjson" % (tmp, base)) as f:
                rr = subprocess.run([binpath, "replay", "literal", "--cfg", hc], stdin=f, capture_output=True, text=True, timeout=600)
            if rr.returncode != 0: raise ToolError("literal replay died: " + rr.stderr[-1000:])
            rep = json.loads(rr.stdout.strip().split("\n")[-1])
            j.evaluations = rep["evaluations"]; j.nontrivial = rep["distinct_nontrivial"]; j.samples = rep["samples"][:2]
            for m in rep["mismatches"]:
                m.update({"kind": "transition", "machine": "literal", "cfg": hc}); j.mismatches.append(m)
            j.wall = time.time() - t0
            jobs.append(j)
    finally:
        shutil.rmtree(tmp, ignore_errors=True)
    return jobs

def run_jobs(thunks, parallel=6):
    """Run job thunks in a thread pool; ToolError propagates."""
    jobs = []
    with cf.ThreadPoolExecutor(max_workers=parallel) as ex:
        futs = [ex.submit(t) for t in thunks]
        for f in futs:
            jobs.append(f.result())
    return jobs

# ------------------------------------------------------------------------------------------
# known findings, violations, evidence

def load_known():
    return json.load(open(V + "/known_findings.json"))

def matches_known(pid, mm, known, predicates):
    for k in known:
        if k.get("status") != "known" or (k["property"] != pid and pid not in k.get("also", [])): continue
        pred = predicates.get(k["class"])
        if pred and pred(mm, k.get("params", {})):
            return k
    return None

def finish(pid, tier, seed, jobs, t0, level="model_checking", predicates=None, rule="", assumptions=(), extra=None):
    """Write evidence, print VIOLATION / KNOWN-FINDING lines, return the exit code."""
    known = load_known()
    predicates = predicates or {}
    os.makedirs(V + "/replays", exist_ok=True); os.makedirs(V + "/evidence", exist_ok=True)
    for old in glob.glob("%s/replays/%s-*.json" % (V, pid)): os.remove(old)          # replays of an earlier run of this check
    viol = 0; kf = {}
    n = 0
    for j in jobs:
        for mm in j.mismatches:
            k = matches_known(pid, mm, known, predicates)
            if k:
                kf.setdefault(k["class"], [k, 0]); kf[k["class"]][1] += 1
                continue
            n += 1
            if n > 20: viol += 1; continue
            path = "%s/replays/%s-%d.json" % (V, pid, n)
            json.dump({"property": pid, "job": j.name, "seed": seed, "case": mm,
                       "replay_cmd": "./check %s --replay %s" % (pid, path)}, open(path, "w"), indent=1)
            print("VIOLATION property=%s replay=%s" % (pid, path), flush=True)
            viol += 1
    for cls, (k, cnt) in kf.items():
        print("KNOWN-FINDING: property=%s %s (%d occurrences this run; site %s)" % (pid, k["what"], cnt, k["site"]), flush=True)
    cov = {
        "states": sum(j.states for j in jobs), "transitions": sum(j.transitions for j in jobs),
        "traces_validated_against_impl": sum(j.traces for j in jobs),
        "evaluations": sum(j.evaluations for j in jobs),
        "distinct_nontrivial": sum(j.nontrivial for j in jobs),
        "rule": rule,
        "samples": [s for j in jobs for s in j.samples][:8] or ["(no samples)"],
        "exhaustive": all(j.exhaustive for j in jobs if j.name.startswith(("A:", "M:"))) and any(j.name.startswith(("A:", "M:")) for j in jobs),
        "checker_cmd": "; ".join(sorted(set(j.cmd for j in jobs)))[:4000],
        "jobs": [{"name": j.name, "states": j.states, "transitions": j.transitions, "evaluations": j.evaluations,
                  "distinct_nontrivial": j.nontrivial, "mismatches": len(j.mismatches), "wall_s": round(j.wall, 1)} for j in jobs],
        "known_findings_seen": {c: v[1] for c, v in kf.items()},
        "trusted_base": ["TLC/SANY 1.8.0", "java.math.BigInteger after MC_BigNatSelfTest", "num-bigint (harness abstraction functions)", "rustc"],
    }
    if extra: cov.update(extra)
    ev = {"property_id": pid, "tier": tier, "seed": seed, "level": level, "coverage": cov,
          "assumptions": list(assumptions), "wall_s": round(time.time() - t0, 1), "violations": viol}
    json.dump(ev, open("%s/evidence/%s.json" % (V, pid), "w"), indent=1)
    log("%s %s: %d jobs, %d states, %d transitions, %d evaluations, %d violations, %.0fs" % (
        pid, tier, len(jobs), cov["states"], cov["transitions"], cov["evaluations"], viol, time.time() - t0))
    return 1 if viol else 0
