// TLC module override for spec/lib/HashFn.tla: RFC 9380 leaves the hash function H abstract; the
// specification binds it to the JVM's SHA-2 (validated inside TLC by the RFC's expand_message_xmd
// vectors, spec/mc/MC_H2C_RFC).
import java.security.MessageDigest;
import tlc2.value.impl.IntValue;
import tlc2.value.impl.TupleValue;
import tlc2.value.impl.Value;

public class HashFn {
    static Value digest(String alg, Value bytes) throws Exception {
        Value[] e = ((TupleValue) bytes.toTuple()).elems;
        byte[] in = new byte[e.length];
        for (int i = 0; i < e.length; i++) in[i] = (byte) ((IntValue) e[i]).val;
        byte[] out = MessageDigest.getInstance(alg).digest(in);
        Value[] r = new Value[out.length];
        for (int i = 0; i < out.length; i++) r[i] = IntValue.gen(out[i] & 0xff);
        return new TupleValue(r);
    }
    public static Value Sha256(Value b) throws Exception { return digest("SHA-256", b); }
    public static Value Sha384(Value b) throws Exception { return digest("SHA-384", b); }
    public static Value Sha512(Value b) throws Exception { return digest("SHA-512", b); }
}
