// TLC module override for spec/lib/VerifIO.tla: writes one line per emitted transition to the
// file named by the environment variable EMIT_FILE (synchronized, so that lines of
// different TLC workers and TLC's own progress messages never interleave).
import java.io.BufferedWriter;
import java.io.FileWriter;
import java.io.PrintWriter;
import tlc2.value.impl.BoolValue;
import tlc2.value.impl.StringValue;
import tlc2.value.impl.Value;

public class VerifIO {
    private static PrintWriter w;
    private static long count = 0;

    private static synchronized void open() throws Exception {
        if (w != null) return;
        String f = System.getenv("EMIT_FILE");
        if (f == null) f = "/dev/stdout";
        w = new PrintWriter(new BufferedWriter(new FileWriter(f), 1 << 16));
        Runtime.getRuntime().addShutdownHook(new Thread(() -> { synchronized (VerifIO.class) { w.flush(); w.close(); } }));
    }

    public static Value EmitLine(Value s) throws Exception {
        if (w == null) open();
        String line = ((StringValue) s).val.toString();
        synchronized (VerifIO.class) { w.println(line); count++; }
        return BoolValue.ValTrue;
    }
}
