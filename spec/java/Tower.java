// TLC module overrides (accelerators) for spec/lib/Tower.tla: the same schoolbook arithmetic
// of F_p[X]/(X^d - nr) towers as the TLA+ definitions (suffix D), on java.math.BigInteger.
// Checked against the definitions by spec/mc/MC_TowerSelfTest.
import java.math.BigInteger;
import tlc2.value.impl.IntValue;
import tlc2.value.impl.RecordValue;
import tlc2.value.impl.StringValue;
import tlc2.value.impl.TupleValue;
import tlc2.value.impl.Value;
import util.UniqueString;

public class Tower {
    static final class Fld {
        Value src; boolean big; BigInteger p; int[] deg; Object[] nr;
    }
    private static final ThreadLocal<Fld> CACHE = new ThreadLocal<>();

    static Value field(Value rec, String name) {
        RecordValue r = (RecordValue) rec.toRcd();
        UniqueString n = UniqueString.uniqueStringOf(name);
        for (int i = 0; i < r.names.length; i++) if (r.names[i].equals(n)) return r.values[i];
        throw new RuntimeException("Tower: no field " + name + " in " + rec);
    }

    static Fld fld(Value F) {
        Fld c = CACHE.get();
        if (c != null && c.src == F) return c;
        Fld f = new Fld();
        f.src = F;
        Value p = field(F, "p");
        f.big = !(p instanceof IntValue);
        f.p = num(p, f.big);
        Value[] lv = ((TupleValue) field(F, "lv").toTuple()).elems;
        f.deg = new int[lv.length + 1];
        f.nr = new Object[lv.length + 1];
        for (int k = 1; k <= lv.length; k++) {
            f.deg[k] = ((IntValue) field(lv[k - 1], "deg")).val;
            f.nr[k] = conv(f, k - 1, field(lv[k - 1], "nr"));
        }
        CACHE.set(f);
        return f;
    }

    static BigInteger num(Value v, boolean big) {
        if (big) return BigNat.big(v);
        return BigInteger.valueOf(((IntValue) v).val);
    }
    static Value val(BigInteger x, boolean big) {
        if (big) return BigNat.val(x);
        return IntValue.gen(x.intValueExact());
    }
    static Object conv(Fld f, int k, Value a) {
        if (k == 0) return num(a, f.big);
        Value[] e = ((TupleValue) a.toTuple()).elems;
        if (e.length != f.deg[k]) throw new RuntimeException("Tower: element of wrong degree at level " + k + ": " + a);
        Object[] r = new Object[e.length];
        for (int i = 0; i < e.length; i++) r[i] = conv(f, k - 1, e[i]);
        return r;
    }
    static Value back(Fld f, int k, Object a) {
        if (k == 0) return val((BigInteger) a, f.big);
        Object[] e = (Object[]) a;
        Value[] r = new Value[e.length];
        for (int i = 0; i < e.length; i++) r[i] = back(f, k - 1, e[i]);
        return new TupleValue(r);
    }

    static Object zero(Fld f, int k) {
        if (k == 0) return BigInteger.ZERO;
        Object[] r = new Object[f.deg[k]];
        for (int i = 0; i < r.length; i++) r[i] = zero(f, k - 1);
        return r;
    }
    static Object one(Fld f, int k) {
        if (k == 0) return BigInteger.ONE;
        Object[] r = (Object[]) zero(f, k);
        r[0] = one(f, k - 1);
        return r;
    }
    static boolean isZero(int k, Object a) {
        if (k == 0) return ((BigInteger) a).signum() == 0;
        for (Object x : (Object[]) a) if (!isZero(k - 1, x)) return false;
        return true;
    }
    static Object add(Fld f, int k, Object a, Object b) {
        if (k == 0) return ((BigInteger) a).add((BigInteger) b).mod(f.p);
        Object[] x = (Object[]) a, y = (Object[]) b, r = new Object[x.length];
        for (int i = 0; i < x.length; i++) r[i] = add(f, k - 1, x[i], y[i]);
        return r;
    }
    static Object sub(Fld f, int k, Object a, Object b) {
        if (k == 0) return ((BigInteger) a).subtract((BigInteger) b).mod(f.p);
        Object[] x = (Object[]) a, y = (Object[]) b, r = new Object[x.length];
        for (int i = 0; i < x.length; i++) r[i] = sub(f, k - 1, x[i], y[i]);
        return r;
    }
    static Object neg(Fld f, int k, Object a) { return sub(f, k, zero(f, k), a); }
    static Object mul(Fld f, int k, Object a, Object b) {
        if (k == 0) return ((BigInteger) a).multiply((BigInteger) b).mod(f.p);
        int d = f.deg[k];
        Object[] x = (Object[]) a, y = (Object[]) b;
        Object[] c = new Object[2 * d - 1];
        for (int m = 0; m < c.length; m++) c[m] = zero(f, k - 1);
        for (int i = 0; i < d; i++) for (int j = 0; j < d; j++) c[i + j] = add(f, k - 1, c[i + j], mul(f, k - 1, x[i], y[j]));
        Object[] r = new Object[d];
        for (int m = 0; m < d; m++) r[m] = c[m];
        for (int m = d; m < 2 * d - 1; m++) r[m - d] = add(f, k - 1, r[m - d], mul(f, k - 1, f.nr[k], c[m]));
        return r;
    }
    static Object normDown(Fld f, int k, Object a) {
        Object[] x = (Object[]) a;
        Object nr = f.nr[k];
        if (f.deg[k] == 2) return sub(f, k - 1, mul(f, k - 1, x[0], x[0]), mul(f, k - 1, nr, mul(f, k - 1, x[1], x[1])));
        Object t0 = sub(f, k - 1, mul(f, k - 1, x[0], x[0]), mul(f, k - 1, nr, mul(f, k - 1, x[1], x[2])));
        Object t1 = sub(f, k - 1, mul(f, k - 1, nr, mul(f, k - 1, x[2], x[2])), mul(f, k - 1, x[0], x[1]));
        Object t2 = sub(f, k - 1, mul(f, k - 1, x[1], x[1]), mul(f, k - 1, x[0], x[2]));
        return add(f, k - 1, mul(f, k - 1, x[0], t0), mul(f, k - 1, nr, add(f, k - 1, mul(f, k - 1, x[2], t1), mul(f, k - 1, x[1], t2))));
    }
    static Object inv(Fld f, int k, Object a) {
        if (k == 0) {
            BigInteger v = (BigInteger) a;
            if (f.p.equals(BigInteger.ONE) || !v.gcd(f.p).equals(BigInteger.ONE)) return BigInteger.ZERO;
            return v.modInverse(f.p);
        }
        Object[] x = (Object[]) a;
        Object nr = f.nr[k];
        Object ni = inv(f, k - 1, normDown(f, k, a));
        if (f.deg[k] == 2) return new Object[] { mul(f, k - 1, x[0], ni), mul(f, k - 1, neg(f, k - 1, x[1]), ni) };
        Object t0 = sub(f, k - 1, mul(f, k - 1, x[0], x[0]), mul(f, k - 1, nr, mul(f, k - 1, x[1], x[2])));
        Object t1 = sub(f, k - 1, mul(f, k - 1, nr, mul(f, k - 1, x[2], x[2])), mul(f, k - 1, x[0], x[1]));
        Object t2 = sub(f, k - 1, mul(f, k - 1, x[1], x[1]), mul(f, k - 1, x[0], x[2]));
        return new Object[] { mul(f, k - 1, t0, ni), mul(f, k - 1, t1, ni), mul(f, k - 1, t2, ni) };
    }
    static Object pow(Fld f, int k, Object a, BigInteger e) {
        if (k == 0) return ((BigInteger) a).modPow(e, f.p);
        Object acc = one(f, k);
        for (int i = e.bitLength() - 1; i >= 0; i--) {
            acc = mul(f, k, acc, acc);
            if (e.testBit(i)) acc = mul(f, k, acc, a);
        }
        return acc;
    }

    static int lvl(Value k) { return ((IntValue) k).val; }

    public static Value TAdd(Value F, Value k, Value a, Value b) { Fld f = fld(F); int l = lvl(k); return back(f, l, add(f, l, conv(f, l, a), conv(f, l, b))); }
    public static Value TSub(Value F, Value k, Value a, Value b) { Fld f = fld(F); int l = lvl(k); return back(f, l, sub(f, l, conv(f, l, a), conv(f, l, b))); }
    public static Value TNeg(Value F, Value k, Value a) { Fld f = fld(F); int l = lvl(k); return back(f, l, neg(f, l, conv(f, l, a))); }
    public static Value TMul(Value F, Value k, Value a, Value b) { Fld f = fld(F); int l = lvl(k); return back(f, l, mul(f, l, conv(f, l, a), conv(f, l, b))); }
    public static Value TInv(Value F, Value k, Value a) { Fld f = fld(F); int l = lvl(k); return back(f, l, inv(f, l, conv(f, l, a))); }
    public static Value TNormDown(Value F, Value k, Value a) { Fld f = fld(F); int l = lvl(k); return back(f, l - 1, normDown(f, l, conv(f, l, a))); }
    public static Value TPow(Value F, Value k, Value a, Value e) { Fld f = fld(F); int l = lvl(k); return back(f, l, pow(f, l, conv(f, l, a), num(e, f.big))); }
}
