// TLC module overrides (accelerators) for spec/lib/BigNat.tla.
// Legacy override mechanism: a class in the default package named like the module, one
// public static method per overridden operator.  Every override is checked against the
// normative TLA+ definition (<Op>Def) by spec/mc/MC_BigNatSelfTest.
import java.math.BigInteger;
import tlc2.value.impl.IntValue;
import tlc2.value.impl.TupleValue;
import tlc2.value.impl.Value;

public class BigNat {
    private static final Value[] EMPTY = new Value[0];
    private static final IntValue[] DIG = new IntValue[256];
    static { for (int i = 0; i < 256; i++) DIG[i] = IntValue.gen(i); }

    static BigInteger big(Value v) {
        Value tv = v.toTuple();
        if (tv == null) throw new RuntimeException("BigNat: not a sequence: " + v);
        Value[] e = ((TupleValue) tv).elems;
        int n = e.length;
        if (n == 0) return BigInteger.ZERO;
        byte[] be = new byte[n + 1];            // big-endian magnitude with a leading 0
        for (int i = 0; i < n; i++) {
            int d = ((IntValue) e[i]).val;
            if (d < 0 || d > 255) throw new RuntimeException("BigNat: digit out of range: " + d);
            be[n - i] = (byte) d;
        }
        return new BigInteger(be);
    }

    static Value val(BigInteger x) {
        if (x.signum() < 0) throw new RuntimeException("BigNat: negative result");
        if (x.signum() == 0) return new TupleValue(EMPTY);
        byte[] be = x.toByteArray();
        int start = (be[0] == 0) ? 1 : 0;
        int n = be.length - start;
        Value[] e = new Value[n];
        for (int i = 0; i < n; i++) e[i] = DIG[be[be.length - 1 - i] & 0xff];
        return new TupleValue(e);
    }

    static int small(Value v) { return ((IntValue) v).val; }

    public static Value BnNorm(Value s) { return val(big(s)); }
    public static Value BnFromInt(Value n) { return val(BigInteger.valueOf(small(n))); }
    public static Value BnToInt(Value a) { return IntValue.gen(big(a).intValueExact()); }
    public static Value BnAdd(Value a, Value b) { return val(big(a).add(big(b))); }
    public static Value BnSub(Value a, Value b) {
        BigInteger r = big(a).subtract(big(b));
        return val(r.signum() < 0 ? BigInteger.ZERO : r);
    }
    public static Value BnCmp(Value a, Value b) { return IntValue.gen(big(a).compareTo(big(b))); }
    public static Value BnMul(Value a, Value b) { return val(big(a).multiply(big(b))); }
    public static Value BnDiv(Value a, Value b) { return val(big(a).divide(big(b))); }
    public static Value BnMod(Value a, Value b) { return val(big(a).mod(big(b))); }
    public static Value BnModPow(Value a, Value e, Value m) {
        BigInteger mm = big(m);
        if (mm.equals(BigInteger.ONE)) return val(BigInteger.ZERO);
        return val(big(a).modPow(big(e), mm));
    }
    public static Value BnModInv(Value a, Value m) {
        BigInteger mm = big(m), aa = big(a).mod(mm);
        if (mm.equals(BigInteger.ONE) || !aa.gcd(mm).equals(BigInteger.ONE)) return val(BigInteger.ZERO);
        return val(aa.modInverse(mm));
    }
    public static Value BnGcd(Value a, Value b) { return val(big(a).gcd(big(b))); }
    public static Value BnShl(Value a, Value k) { return val(big(a).shiftLeft(small(k))); }
    public static Value BnShr(Value a, Value k) { return val(big(a).shiftRight(small(k))); }
    public static Value BnBit(Value a, Value i) { return IntValue.gen(big(a).testBit(small(i)) ? 1 : 0); }
    public static Value BnBitLen(Value a) { return IntValue.gen(big(a).bitLength()); }
    public static Value BnPow2(Value k) { return val(BigInteger.ONE.shiftLeft(small(k))); }
    public static Value BnAnd(Value a, Value b) { return val(big(a).and(big(b))); }
    public static Value BnOr(Value a, Value b) { return val(big(a).or(big(b))); }
    public static Value BnXor(Value a, Value b) { return val(big(a).xor(big(b))); }
    public static Value BnToBytesLE(Value a, Value n) {
        int len = small(n);
        Value[] src = ((TupleValue) a.toTuple()).elems;
        Value[] e = new Value[len];
        for (int i = 0; i < len; i++) e[i] = i < src.length ? src[i] : DIG[0];
        return new TupleValue(e);
    }
    public static Value BnFromDecimal(Value s) {
        Value[] e = ((TupleValue) s.toTuple()).elems;
        BigInteger acc = BigInteger.ZERO;
        for (Value d : e) acc = acc.multiply(BigInteger.TEN).add(BigInteger.valueOf(small(d)));
        return val(acc);
    }
    public static Value BnToDecimal(Value a) {
        BigInteger x = big(a);
        if (x.signum() == 0) return new TupleValue(EMPTY);
        String s = x.toString();
        Value[] e = new Value[s.length()];
        for (int i = 0; i < e.length; i++) e[i] = DIG[s.charAt(i) - '0'];
        return new TupleValue(e);
    }
}
