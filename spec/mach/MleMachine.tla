------------------------------ MODULE MleMachine ------------------------------
(***************************************************************************)
(* Multilinear extensions (ark_poly Dense/SparseMultilinearExtension) and    *)
(* sparse multivariate polynomials over a prime field.  The abstract value   *)
(* of an extension in n variables is its TABLE on the Boolean hypercube, a   *)
(* sequence of 2^n field elements, entry b+1 for the point whose i-th        *)
(* coordinate is bit i of b (least significant bit = variable 0).  Every     *)
(* operation is defined on tables from the definition                        *)
(*    f(x) = sum_b t[b] prod_i (x_i if b_i else 1 - x_i).                     *)
(* A register is a record [n, t].                                            *)
(***************************************************************************)
EXTENDS Tower, TLC

CONSTANTS P, NREG
VARIABLES regs, ev
vars == <<regs, ev>>
Reg == 1..NREG

Bit(b, i) == (b \div (2 ^ i)) % 2
IsTable(m) == /\ Len(m.t) = 2 ^ m.n /\ \A i \in 1..Len(m.t) : NIsNum(m.t[i]) /\ NLt(m.t[i], P)
TypeOK == \A i \in Reg : IsTable(regs[i])

\* eq-weight of hypercube point b (over variables lo .. lo+k-1 of x given as x[1..k])
EqW(b, x, k) == FoldLeft(LAMBDA acc, i : FpMul(P, acc, IF Bit(b, i - 1) = 1 THEN x[i] ELSE FpSub(P, NOne, x[i])), NOne, UpTo(1, k))
MEval(m, x) == FoldLeft(LAMBDA acc, b : FpAdd(P, acc, FpMul(P, m.t[b + 1], EqW(b, x, m.n))), NZero, UpTo(0, 2 ^ m.n - 1))
\* fix the first k variables to the partial point x (Len(x) = k <= n)
MFix(m, x) ==
    LET k == Len(x) IN
    [n |-> m.n - k,
     t |-> [c \in 1..(2 ^ (m.n - k)) |->
              FoldLeft(LAMBDA acc, a : FpAdd(P, acc, FpMul(P, m.t[a + (c - 1) * (2 ^ k) + 1], EqW(a, x, k))), NZero, UpTo(0, 2 ^ k - 1))] \o <<>>]
\* exchange the variable blocks [a, a+k) and [b, b+k) (disjoint, inside 0..n)
SwapBits(idx, a, b, k) ==
    LET lowa == (idx \div (2 ^ a)) % (2 ^ k)  lowb == (idx \div (2 ^ b)) % (2 ^ k)
    IN  idx - lowa * (2 ^ a) - lowb * (2 ^ b) + lowa * (2 ^ b) + lowb * (2 ^ a)
MRelabel(m, a, b, k) == [n |-> m.n, t |-> [i \in 1..Len(m.t) |-> m.t[SwapBits(i - 1, a, b, k) + 1]] \o <<>>]
MZip(m1, m2, op(_, _)) == [n |-> m1.n, t |-> [i \in 1..Len(m1.t) |-> op(m1.t[i], m2.t[i])] \o <<>>]
MMap(m, op(_)) == [n |-> m.n, t |-> [i \in 1..Len(m.t) |-> op(m.t[i])] \o <<>>]
RECURSIVE NextPow2(_)
NextPow2(len) == IF len <= 1 THEN 1 ELSE 2 * NextPow2((len + 1) \div 2)
RECURSIVE Log2(_)
Log2(x) == IF x <= 1 THEN 0 ELSE 1 + Log2(x \div 2)
\* concatenation of tables, zero-padded to the next power of two
MConcat(ms) ==
    LET flat == FoldLeft(LAMBDA acc, i : acc \o ms[i].t, <<>>, UpTo(1, Len(ms)))
        np == NextPow2(Len(flat))
    IN  [n |-> Log2(np), t |-> flat \o [i \in 1..(np - Len(flat)) |-> NZero]]

Init == regs = [i \in Reg |-> [n |-> 0, t |-> <<NZero>>]] \o <<>> /\ ev = [op |-> "init"]
Load(d, m) == IsTable(m) /\ regs' = [regs EXCEPT ![d] = m] /\ ev' = [op |-> "load", d |-> d]

SameVars(d, s) == regs[d].n = regs[s].n
Bin(op, d, s) ==
    /\ SameVars(d, s)
    /\ regs' = [regs EXCEPT ![d] = CASE op = "add" -> MZip(regs[d], regs[s], LAMBDA x, y : FpAdd(P, x, y))
                                     [] op = "sub" -> MZip(regs[d], regs[s], LAMBDA x, y : FpSub(P, x, y))]
    /\ ev' = [op |-> op, d |-> d, s |-> s]
AddScaled(d, f, s) ==
    /\ SameVars(d, s)
    /\ regs' = [regs EXCEPT ![d] = MZip(regs[d], regs[s], LAMBDA x, y : FpAdd(P, x, FpMul(P, f, y)))]
    /\ ev' = [op |-> "add_scaled", d |-> d, f |-> f, s |-> s]
Neg(d) == regs' = [regs EXCEPT ![d] = MMap(regs[d], LAMBDA x : FpNeg(P, x))] /\ ev' = [op |-> "neg", d |-> d]
Scale(d, f) == regs' = [regs EXCEPT ![d] = MMap(regs[d], LAMBDA x : FpMul(P, x, f))] /\ ev' = [op |-> "scale", d |-> d, f |-> f]
Fix(d, x) == /\ Len(x) <= regs[d].n
             /\ regs' = [regs EXCEPT ![d] = MFix(regs[d], x)] /\ ev' = [op |-> "fix_variables", d |-> d, x |-> x]
Relabel(d, a, b, k) ==
    /\ a + k <= regs[d].n /\ b + k <= regs[d].n /\ (a + k <= b \/ b + k <= a \/ k = 0 \/ a = b)
    /\ regs' = [regs EXCEPT ![d] = IF a = b \/ k = 0 THEN regs[d] ELSE MRelabel(regs[d], a, b, k)]
    /\ ev' = [op |-> "relabel", d |-> d, a |-> a, b |-> b, k |-> k]
Concat(d, ss) == /\ regs' = [regs EXCEPT ![d] = MConcat([i \in 1..Len(ss) |-> regs[ss[i]]] \o <<>>)]
                 /\ ev' = [op |-> "concat", d |-> d, ss |-> ss]
Query(op, d, s, x, i) ==
    /\ UNCHANGED regs
    /\ ev' = [op |-> op, d |-> d, s |-> s, x |-> x, i |-> i, ret |->
               CASE op = "evaluate" -> MEval(regs[d], x)
                 [] op = "to_evaluations" -> regs[d].t
                 [] op = "index" -> regs[d].t[i + 1]
                 [] op = "num_vars" -> regs[d].n
                 [] op = "eq" -> regs[d] = regs[s]]

----------------------------------------------------------------------------
(* sparse multivariate polynomials: a term list is a sequence of <<coeff, <<var, power>>...>> *)
TermVal(term, x) == FoldLeft(LAMBDA acc, j : FpMul(P, acc, FpPow(P, x[term[2][j][1] + 1], N(term[2][j][2]))), term[1], UpTo(1, Len(term[2])))
TermsVal(terms, x) == FoldLeft(LAMBDA acc, i : FpAdd(P, acc, TermVal(terms[i], x)), NZero, UpTo(1, Len(terms)))
\* value at x of the polynomial built from a term list / of op applied to two such polynomials
MvQuery(op, nv, t1, t2, x) ==
    /\ UNCHANGED regs
    /\ ev' = [op |-> op, nv |-> nv, t1 |-> t1, t2 |-> t2, x |-> x, ret |->
               CASE op = "mv_evaluate" -> TermsVal(t1, x)
                 [] op = "mv_add" -> FpAdd(P, TermsVal(t1, x), TermsVal(t2, x))
                 [] op = "mv_sub" -> FpSub(P, TermsVal(t1, x), TermsVal(t2, x))
                 [] op = "mv_neg" -> FpNeg(P, TermsVal(t1, x))]
=============================================================================
