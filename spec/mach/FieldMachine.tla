---------------------------- MODULE FieldMachine ----------------------------
(***************************************************************************)
(* A register machine over one finite field F_K of a tower F (K = 0: the    *)
(* prime field).  One action per public operation of ark_ff::Field /        *)
(* PrimeField (the in-place API is the natural state machine: `a += b`,     *)
(* `square_in_place`, `inverse_in_place`, ...).  Registers hold ABSTRACT    *)
(* values (canonical residues / coefficient tuples); the implementation's   *)
(* Montgomery limbs are related to them by Decode (below), which the trace  *)
(* validator applies to the logged raw limbs.                               *)
(*                                                                          *)
(* `ev` records the last event (operation, arguments, returned value); it   *)
(* is an observation variable (hidden by VIEW in exhaustive models).        *)
(***************************************************************************)
EXTENDS Tower, TLC

CONSTANTS F,        \* the tower (record, see Tower)
          K,        \* level of the field this machine works in
          NREG      \* number of registers

VARIABLES regs, ev
vars == <<regs, ev>>

Reg  == 1..NREG
Zero == TZero(F, K)
One  == TOne(F, K)

TypeOK == \A i \in Reg : TIsElem(F, K, regs[i])

----------------------------------------------------------------------------
(* Montgomery abstraction function for an N-limb prime field:               *)
(*    Decode(raw) = raw * R^-1 mod p,   R = 2^(64 N)                        *)
(* with the representation invariant raw < p.                               *)
MontR(p, nlimbs)     == NMod(NPow2(64 * nlimbs), p)
MontRinv(p, nlimbs)  == NModInv(MontR(p, nlimbs), p)
MontDecode(p, nlimbs, raw) == NMod(NMul(raw, MontRinv(p, nlimbs)), p)
MontEncode(p, nlimbs, v)   == NMod(NMul(v, MontR(p, nlimbs)), p)
MontCanonical(p, raw)      == NLt(raw, p)

----------------------------------------------------------------------------
(* definitions of the operations *)
BinDef(op, a, b) ==
    CASE op = "add" -> TAdd(F, K, a, b)
      [] op = "sub" -> TSub(F, K, a, b)
      [] op = "mul" -> TMul(F, K, a, b)
      [] op = "div" -> TMul(F, K, a, TInv(F, K, b))       \* b # 0
UnDef(op, a) ==
    CASE op = "neg" -> TNeg(F, K, a)
      [] op = "dbl" -> TDbl(F, K, a)
      [] op = "sqr" -> TSqr(F, K, a)
      [] op = "inv" -> TInv(F, K, a)                       \* a # 0

\* value of a signed machine integer in the field: sign * mag, embedded in the prime field
IntDef(neg, mag) == LET m == NMod(mag, F.p)
                    IN  TFromPrime(F, K, IF neg THEN FpNeg(F.p, m) ELSE m)

RECURSIVE SumProdDef(_, _, _)
SumProdDef(r, is, js) == IF Len(is) = 0 THEN Zero
                         ELSE TAdd(F, K, TMul(F, K, r[Head(is)], r[Head(js)]),
                                   SumProdDef(r, Tail(is), Tail(js)))

----------------------------------------------------------------------------
Init == /\ regs \in [Reg -> {Zero}]
        /\ ev = [op |-> "init"]

\* a value enters a register from outside (constructor from raw representation, random
\* sampling, deserialization ...): any element
Load(d, v) == /\ TIsElem(F, K, v)
              /\ regs' = [regs EXCEPT ![d] = v]
              /\ ev' = [op |-> "load", d |-> d]

\* regs[d] := regs[d] op regs[s]      (s = d is the aliased form  a op= a)
Bin(op, d, s) == /\ op = "div" => ~TIsZero(F, K, regs[s])
                 /\ regs' = [regs EXCEPT ![d] = BinDef(op, regs[d], regs[s])]
                 /\ ev' = [op |-> op, d |-> d, s |-> s]

\* in-place unary operations; inverse of zero reports failure and leaves the register alone
Un(op, d) == IF op = "inv" /\ TIsZero(F, K, regs[d])
             THEN /\ UNCHANGED regs
                  /\ ev' = [op |-> op, d |-> d, ret |-> "none"]
             ELSE /\ regs' = [regs EXCEPT ![d] = UnDef(op, regs[d])]
                  /\ ev' = [op |-> op, d |-> d, ret |-> "some"]

\* regs[d] := regs[d]^e for a non-negative integer e (given to the code as u64 limbs)
Pow(d, e) == /\ regs' = [regs EXCEPT ![d] = TPow(F, K, regs[d], e)]
             /\ ev' = [op |-> "pow", d |-> d, e |-> e]

\* Frobenius endomorphism, n >= 0 (n may exceed the extension degree)
Frob(d, n) == /\ regs' = [regs EXCEPT ![d] = TFrob(F, K, regs[d], n)]
              /\ ev' = [op |-> "frob", d |-> d, n |-> n]

\* conversion from a machine integer of the given type
FromInt(d, ty, neg, mag) == /\ regs' = [regs EXCEPT ![d] = IntDef(neg, mag)]
                            /\ ev' = [op |-> "from_int", d |-> d, ty |-> ty, neg |-> neg, mag |-> mag]

\* inner product of register lists (same length)
SumProd(d, is, js) == /\ Len(is) = Len(js)
                      /\ regs' = [regs EXCEPT ![d] = SumProdDef(regs, is, js)]
                      /\ ev' = [op |-> "sum_of_products", d |-> d, is |-> is, js |-> js]

\* batch inversion of a list of distinct registers; zero entries are skipped; every
\* inverse is additionally multiplied by regs[c] when c # 0
BatchInv(ds, c) ==
    /\ \A i, j \in 1..Len(ds) : i # j => ds[i] # ds[j]
    /\ c # 0 => \A i \in 1..Len(ds) : ds[i] # c
    /\ regs' = [i \in Reg |->
                  IF \E t \in 1..Len(ds) : ds[t] = i
                  THEN IF TIsZero(F, K, regs[i]) THEN regs[i]
                       ELSE LET iv == TInv(F, K, regs[i])
                            IN  IF c = 0 THEN iv ELSE TMul(F, K, iv, regs[c])
                  ELSE regs[i]]
    /\ ev' = [op |-> "batch_inv", ds |-> ds, c |-> c]

\* queries: registers unchanged, a value is returned
Query(op, d, s) ==
    /\ UNCHANGED regs
    /\ ev' = [op |-> op, d |-> d, s |-> s, ret |->
               CASE op = "is_zero" -> regs[d] = Zero
                 [] op = "is_one"  -> regs[d] = One
                 [] op = "eq"      -> regs[d] = regs[s]
                 [] op = "cmp"     -> TCmp(F, K, regs[d], regs[s])
                 [] op = "legendre" -> IF TIsZero(F, K, regs[d]) THEN 0
                                       ELSE IF TIsSquare(F, K, regs[d]) THEN 1 ELSE -1]

\* square root as a RELATION: any root may be returned; "none" exactly for non-squares.
\* y is the value handed back (ignored when the answer is "none").
\* ---- operations specific to the tower types (beyond the Field interface)
\* norm to the level below; conjugation over it (quadratic top level)
Norm(d) == /\ K >= 1 /\ UNCHANGED regs /\ ev' = [op |-> "norm", d |-> d, ret |-> TNormDown(F, K, regs[d])]
Conj(d) == /\ K >= 1 /\ Deg(F, K) = 2
           /\ regs' = [regs EXCEPT ![d] = TConj(F, K, regs[d])] /\ ev' = [op |-> "conj", d |-> d]
\* multiplication by an element s of the subfield at level j < K (mul_by_fp, mul_by_fp2, mul_assign_by_basefield ...)
MulBase(d, j, s) == /\ j < K /\ TIsElem(F, j, s)
                    /\ regs' = [regs EXCEPT ![d] = TMulLevel(F, K, regs[d], j, s)] /\ ev' = [op |-> "mul_base", d |-> d, j |-> j, s |-> s]
\* sparse multiplications (mul_by_01, mul_by_1, mul_by_014, mul_by_034): the product with the element whose named slots hold cs
Sparse(d, slots, cs) == /\ K >= 2 /\ (Deg(F, K) = 3 \/ Deg(F, K - 1) = 3)
                        /\ \A i \in 1..Len(cs) : TIsElem(F, SlotLevel(F, K), cs[i])
                        /\ regs' = [regs EXCEPT ![d] = TMul(F, K, regs[d], SlotElem(F, K, slots, cs))]
                        /\ ev' = [op |-> "sparse", d |-> d, slots |-> slots, cs |-> cs]
\* the fast paths for elements of the cyclotomic subgroup agree with the generic operations THERE
CycSq(d)  == /\ K >= 1 /\ InCyc(F, K, regs[d])
             /\ regs' = [regs EXCEPT ![d] = TSqr(F, K, regs[d])] /\ ev' = [op |-> "cyc_sq", d |-> d]
CycInv(d) == /\ K >= 1 /\ InCyc(F, K, regs[d])
             /\ regs' = [regs EXCEPT ![d] = TInv(F, K, regs[d])] /\ ev' = [op |-> "cyc_inv", d |-> d]
CycExp(d, e) == /\ K >= 1 /\ InCyc(F, K, regs[d])
                /\ regs' = [regs EXCEPT ![d] = TPow(F, K, regs[d], e)] /\ ev' = [op |-> "cyc_exp", d |-> d, e |-> e]

SqrtOK(d, some, y) == IF TIsSquare(F, K, regs[d])
                      THEN some /\ TIsElem(F, K, y) /\ TSqr(F, K, y) = regs[d]
                      ELSE ~some
Sqrt(d, some, y) == /\ SqrtOK(d, some, y)
                    /\ regs' = [regs EXCEPT ![d] = IF some THEN y ELSE @]
                    /\ ev' = [op |-> "sqrt", d |-> d, ret |-> IF some THEN "some" ELSE "none"]

----------------------------------------------------------------------------
(* prime-field-only conversions (K = 0) *)

\* little/big-endian bytes of any length, reduced modulo p
FromBytesMod(d, be, bytes) ==
    /\ K = 0
    /\ regs' = [regs EXCEPT ![d] = NBytesLEMod(IF be THEN SeqReverse(bytes) ELSE bytes, F.p)]
    /\ ev' = [op |-> "from_bytes_mod", d |-> d, be |-> be, bytes |-> bytes]

\* from a big integer of the field's limb width: rejected when >= p
FromBigInt(d, v) ==
    /\ K = 0
    /\ IF NLt(v, F.p)
       THEN regs' = [regs EXCEPT ![d] = v] /\ ev' = [op |-> "from_bigint", d |-> d, v |-> v, ret |-> "some"]
       ELSE UNCHANGED regs /\ ev' = [op |-> "from_bigint", d |-> d, v |-> v, ret |-> "none"]

\* canonical integer of the element
IntoBigInt(d) == /\ K = 0 /\ UNCHANGED regs
                 /\ ev' = [op |-> "into_bigint", d |-> d, ret |-> regs[d]]
\* decimal strings (prime fields): parsing the decimal numeral of an integer (optional minus sign, any magnitude) gives that
\* integer modulo p; printing gives the numeral of the canonical residue.  The numeral itself is formed / parsed on the
\* harness side with an independent big-integer library; the specification deals in the numbers.
FromStr(d, neg, mag) == /\ K = 0 /\ regs' = [regs EXCEPT ![d] = IntDef(neg, mag)]
                        /\ ev' = [op |-> "from_str", d |-> d, neg |-> neg, mag |-> mag]
ToStr(d) == /\ K = 0 /\ UNCHANGED regs /\ ev' = [op |-> "to_str", d |-> d, ret |-> regs[d]]
=============================================================================
