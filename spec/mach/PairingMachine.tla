---------------------------- MODULE PairingMachine ----------------------------
(***************************************************************************)
(* The abstract bilinear group (C06).  G1, G2 and GT are cyclic of prime      *)
(* order r; an element is represented by its DISCRETE LOGARITHM with respect  *)
(* to the fixed generators g1, g2, e(g1, g2), so                              *)
(*      e(a g1, b g2) = (a b) e(g1, g2)        (bilinearity by definition)    *)
(* and a multi-pairing is the sum of the products.  The implementation is     *)
(* bound to this model through EQUALITY PATTERNS only (no golden values):     *)
(* after every step the harness logs which live registers of the same group   *)
(* are equal to the written one and whether it is the identity, and that      *)
(* partition must be the partition of the discrete logarithms.                *)
(* Non-degeneracy is the fact that log e(g1, g2) = 1 # 0.                     *)
(***************************************************************************)
EXTENDS Num, TLC

CONSTANTS R, NREG
VARIABLES g1, g2, gt, ev
vars == <<g1, g2, gt, ev>>
Reg == 1..NREG
M(x) == NMod(x, R)
Neg(x) == IF NIsZero(x) THEN x ELSE NSub(R, x)

Init == /\ g1 = [i \in Reg |-> NZero] \o <<>> /\ g2 = [i \in Reg |-> NZero] \o <<>> /\ gt = [i \in Reg |-> NZero] \o <<>>
        /\ ev = [op |-> "init"]

\* source-group operations; grp = 1 or 2.  The harness knows the discrete logs of what it loads
\* (multiples of the generator), so Load carries the logarithm.
Get(grp) == IF grp = 1 THEN g1 ELSE g2
Put(grp, d, v) == IF grp = 1 THEN g1' = [g1 EXCEPT ![d] = v] /\ UNCHANGED <<g2, gt>>
                  ELSE g2' = [g2 EXCEPT ![d] = v] /\ UNCHANGED <<g1, gt>>
Load(grp, d, k) == Put(grp, d, M(k)) /\ ev' = [op |-> "load", grp |-> grp, d |-> d, k |-> k]
Add(grp, d, s)  == Put(grp, d, M(NAdd(Get(grp)[d], Get(grp)[s]))) /\ ev' = [op |-> "add", grp |-> grp, d |-> d, s |-> s]
NegP(grp, d)    == Put(grp, d, Neg(Get(grp)[d])) /\ ev' = [op |-> "neg", grp |-> grp, d |-> d]
Mul(grp, d, k)  == Put(grp, d, M(NMul(Get(grp)[d], k))) /\ ev' = [op |-> "mul", grp |-> grp, d |-> d, k |-> k]

\* pairings: gt[d] := sum_i g1[is[i]] * g2[js[i]]   (alg: single, multi, prepared, miller+final_exp ...)
Pair(d, is, js, alg) ==
    /\ Len(is) = Len(js)
    /\ gt' = [gt EXCEPT ![d] = FoldLeft(LAMBDA acc, i : M(NAdd(acc, NMul(g1[is[i]], g2[js[i]]))), NZero, UpTo(1, Len(is)))]
    /\ UNCHANGED <<g1, g2>>
    /\ ev' = [op |-> "pair", d |-> d, is |-> is, js |-> js, alg |-> alg]
\* target-group operations (written additively on logarithms)
GtMul(d, s) == gt' = [gt EXCEPT ![d] = M(NAdd(gt[d], gt[s]))] /\ UNCHANGED <<g1, g2>> /\ ev' = [op |-> "gt_mul", d |-> d, s |-> s]
GtInv(d)    == gt' = [gt EXCEPT ![d] = Neg(gt[d])] /\ UNCHANGED <<g1, g2>> /\ ev' = [op |-> "gt_inv", d |-> d]
GtPow(d, k) == gt' = [gt EXCEPT ![d] = M(NMul(gt[d], k))] /\ UNCHANGED <<g1, g2>> /\ ev' = [op |-> "gt_pow", d |-> d, k |-> k]

\* the register is overwritten with the identity (used by the harness to re-synchronise after a failed call)
GtReset(d) == gt' = [gt EXCEPT ![d] = NZero] /\ UNCHANGED <<g1, g2>> /\ ev' = [op |-> "gt_reset", d |-> d]

\* what the harness must observe about register d of group grp (3 = GT): the set of registers
\* equal to it and whether it is the identity
Regs(grp) == IF grp = 1 THEN g1 ELSE IF grp = 2 THEN g2 ELSE gt
EqClass(grp, d) == {j \in Reg : Regs(grp)[j] = Regs(grp)[d]}
IsIdentity(grp, d) == NIsZero(Regs(grp)[d])
=============================================================================
