------------------------------ MODULE SerMachine ------------------------------
(***************************************************************************)
(* Canonical serialization of field elements and curve points (C09, C10) as  *)
(* a machine: a byte buffer is written by Serialize and read by Deserialize. *)
(* All actions are defined through Codec; Deserialize is total (error or     *)
(* value + bytes consumed) and, with validation, only yields points of the   *)
(* prime-order subgroup.                                                     *)
(***************************************************************************)
EXTENDS Codec, TLC

CONSTANTS C          \* the curve (its base field C.F at level C.K is the field being serialized)
VARIABLES buf, ev
vars == <<buf, ev>>

Init == buf = <<>> /\ ev = [op |-> "init"]

\* field element a (of the curve's base field) with f flag bits / mask, appended to the buffer
SerField(a, kind, mask) ==
    /\ buf' = buf \o EncField(C.F, C.K, a, FlagBits(kind), mask)
    /\ ev' = [op |-> "ser_field", v |-> a, kind |-> kind, mask |-> mask,
              size |-> FieldSize(C.F, C.K, FlagBits(kind)), ret |-> EncField(C.F, C.K, a, FlagBits(kind), mask)]
\* decode a field element from arbitrary bytes
DeserField(bs, kind) ==
    LET r == DecField(C.F, C.K, bs, kind) IN
    /\ buf' = bs
    /\ ev' = [op |-> "deser_field", bytes |-> bs, kind |-> kind,
              ret |-> IF r.st = "err" THEN "err" ELSE [v |-> r.v, flag |-> r.flag, n |-> r.n]]
SerPoint(P, compressed) ==
    /\ buf' = buf \o EncPoint(C, P, compressed)
    /\ ev' = [op |-> "ser_point", P |-> P, compressed |-> compressed, size |-> PointSize(C, compressed), ret |-> EncPoint(C, P, compressed)]
\* decoding a point.  The outcome claimed by the implementation is (ok, Q): Ok(Q) or an error.
\* It is correct iff
\*   - the bytes are not the encoding of any pair of coordinates            and it is an error, or
\*   - Q is the point the bytes denote (and, when validating, Q is O or a point of the
\*     prime-order subgroup)                                                and it is Ok(Q), or
\*   - validation is on, W is the point the bytes denote, W is off the curve or outside the
\*     subgroup                                                            and it is an error.
\* W is a witness (ignored in the other cases); at toy size it is found by enumeration.
DeserPointOK(bs, compressed, validate, ok, Q, W) ==
    LET oc == DecPointOutcome(C, bs, compressed, validate) IN
    IF oc = "err" THEN ~ok
    ELSE IF ok THEN PointMatches(C, bs, compressed, Q) /\ (validate => (Q = Inf \/ Valid(C, Q)))
    ELSE validate /\ PointMatches(C, bs, compressed, W) /\ W # Inf /\ ~Valid(C, W)
DeserPoint(bs, compressed, validate, ok, Q, W) ==
    /\ DeserPointOK(bs, compressed, validate, ok, Q, W)
    /\ buf' = bs
    /\ ev' = [op |-> "deser_point", bytes |-> bs, compressed |-> compressed, validate |-> validate,
              ret |-> IF ok THEN [P |-> Q] ELSE "err"]
=============================================================================
