---------------------------- MODULE BigIntMachine ----------------------------
(***************************************************************************)
(* Fixed-width big integers (ark_ff::BigInt<N>, trait BigInteger): a         *)
(* register machine over the integers modulo W = 2^(64 NL).  Every action    *)
(* is defined with arbitrary-precision arithmetic (Num with BIG = TRUE);     *)
(* carries / borrows are reported exactly.  The signed-digit recodings are   *)
(* given both as a relation (reconstruction + digit constraints) and, since  *)
(* the (w-)NAF of a number is unique, as the value computed on unbounded     *)
(* integers.                                                                 *)
(***************************************************************************)
EXTENDS Num, TLC

CONSTANTS NL,      \* number of 64-bit limbs
          NREG

VARIABLES regs, ev
vars == <<regs, ev>>
Reg == 1..NREG

BITS == 64 * NL
W    == NPow2(BITS)
IsVal(a) == NIsNum(a) /\ NLt(a, W)
TypeOK == \A i \in Reg : IsVal(regs[i])

Wrap(a) == NMod(a, W)
BoolInt(b) == IF b THEN 1 ELSE 0

\* bit strings: sequences of 0/1
BitsLE(a, n) == [i \in 1..n |-> NBit(a, i - 1)] \o <<>>
BitsBE(a, n) == [i \in 1..n |-> NBit(a, n - i)] \o <<>>
\* value of a little-endian bit string, any length
FromBitsLE(bs) == FoldLeft(LAMBDA acc, i : NAdd(NAdd(acc, acc), N(bs[i])), NZero, DownTo(Len(bs), 1))

----------------------------------------------------------------------------
(* signed-digit recodings.  Digits are TLC integers (|d| < 2^20), least significant first. *)
Abs(x) == IF x < 0 THEN -x ELSE x
\* value of a digit string: sum d_i 2^i, must be >= 0; computed as positive part minus negative part
DigitsPos(ds) == FoldLeft(LAMBDA acc, i : NAdd(NAdd(acc, acc), IF ds[i] > 0 THEN N(ds[i]) ELSE NZero), NZero, DownTo(Len(ds), 1))
DigitsNeg(ds) == FoldLeft(LAMBDA acc, i : NAdd(NAdd(acc, acc), IF ds[i] < 0 THEN N(-ds[i]) ELSE NZero), NZero, DownTo(Len(ds), 1))
Reconstructs(ds, v) == DigitsPos(ds) = NAdd(DigitsNeg(ds), v)

\* width-w NAF: non-zero digits odd with |d| < 2^(w-1); any w consecutive digits contain at most
\* one non-zero digit; no trailing (most significant) zero digit
WnafOK(ds, v, w) ==
    /\ Reconstructs(ds, v)
    /\ \A i \in 1..Len(ds) : ds[i] # 0 => (Abs(ds[i]) % 2 = 1 /\ Abs(ds[i]) < 2 ^ (w - 1))
    /\ \A i \in 1..Len(ds) : ds[i] # 0 => \A j \in (i+1)..(i+w-1) : j <= Len(ds) => ds[j] = 0
    /\ (Len(ds) > 0 => ds[Len(ds)] # 0)

\* the w-NAF computed on unbounded integers (it is unique): state <<e, digits>>
WnafDef(v, w) ==
    LET step(st, i) ==
          LET e == st[1] IN
          IF NIsZero(e) THEN st
          ELSE IF NIsOdd(e)
               THEN LET m == NToInt(NMod(e, NPow2(w)))            \* e mod 2^w, w <= 20
                        z == IF m >= 2 ^ (w - 1) THEN m - 2 ^ w ELSE m
                        e2 == IF z >= 0 THEN NSub(e, N(z)) ELSE NAdd(e, N(-z))
                    IN  <<NHalf(e2), Append(st[2], z)>>
               ELSE <<NHalf(e), Append(st[2], 0)>>
    IN  FoldLeft(step, <<v, <<>>>>, UpTo(1, NBitLen(v) + 1))[2]

\* relaxed NAF: digits in {-1,0,1}, reconstructs, non-adjacent except possibly the top two
\* digits, not longer than the NAF, no trailing zero
RelaxedNafOK(ds, v) ==
    /\ Reconstructs(ds, v)
    /\ \A i \in 1..Len(ds) : ds[i] \in {-1, 0, 1}
    /\ \A i \in 1..(Len(ds) - 2) : ds[i] # 0 => ds[i+1] = 0
    /\ Len(ds) <= Len(WnafDef(v, 2))
    /\ (Len(ds) > 0 => ds[Len(ds)] # 0)

----------------------------------------------------------------------------
Init == /\ regs = [i \in Reg |-> NZero] \o <<>>
        /\ ev = [op |-> "init"]

Load(d, v) == /\ IsVal(v)
              /\ regs' = [regs EXCEPT ![d] = v]
              /\ ev' = [op |-> "load", d |-> d]

\* binary operations  regs[d] := regs[d] op regs[s],  returning a flag / the high half
Bin(op, d, s) ==
    LET a == regs[d]  b == regs[s] IN
    CASE op = "add_with_carry" -> /\ regs' = [regs EXCEPT ![d] = Wrap(NAdd(a, b))]
                                  /\ ev' = [op |-> op, d |-> d, s |-> s, ret |-> ~NLt(NAdd(a, b), W)]
      [] op = "sub_with_borrow" -> /\ regs' = [regs EXCEPT ![d] = IF NLt(a, b) THEN NSub(NAdd(a, W), b) ELSE NSub(a, b)]
                                   /\ ev' = [op |-> op, d |-> d, s |-> s, ret |-> NLt(a, b)]
      [] op = "mul" -> /\ regs' = [regs EXCEPT ![d] = Wrap(NMul(a, b))]
                       /\ ev' = [op |-> op, d |-> d, s |-> s, ret |-> NDiv(NMul(a, b), W)]
      [] op = "mul_low" -> /\ regs' = [regs EXCEPT ![d] = Wrap(NMul(a, b))]
                           /\ ev' = [op |-> op, d |-> d, s |-> s]
      [] op = "mul_high" -> /\ regs' = [regs EXCEPT ![d] = NDiv(NMul(a, b), W)]
                            /\ ev' = [op |-> op, d |-> d, s |-> s]
      [] op = "and" -> /\ regs' = [regs EXCEPT ![d] = BnAnd(a, b)] /\ ev' = [op |-> op, d |-> d, s |-> s]
      [] op = "or"  -> /\ regs' = [regs EXCEPT ![d] = BnOr(a, b)]  /\ ev' = [op |-> op, d |-> d, s |-> s]
      [] op = "xor" -> /\ regs' = [regs EXCEPT ![d] = BnXor(a, b)] /\ ev' = [op |-> op, d |-> d, s |-> s]

\* unary in-place operations
Un(op, d) ==
    LET a == regs[d] IN
    CASE op = "mul2" -> /\ regs' = [regs EXCEPT ![d] = Wrap(NAdd(a, a))]
                        /\ ev' = [op |-> op, d |-> d, ret |-> ~NLt(NAdd(a, a), W)]
      [] op = "div2" -> /\ regs' = [regs EXCEPT ![d] = NHalf(a)] /\ ev' = [op |-> op, d |-> d]
      [] op = "not"  -> /\ regs' = [regs EXCEPT ![d] = NSub(NSub(W, NOne), a)] /\ ev' = [op |-> op, d |-> d]

\* shifts by any amount k >= 0: left shifts drop what leaves the width, k >= 64 NL gives 0
Shift(op, d, k) ==
    LET a == regs[d] IN
    /\ op \in {"muln", "shl", "divn", "shr"}
    /\ regs' = [regs EXCEPT ![d] = IF op \in {"muln", "shl"} THEN Wrap(NShl(a, k)) ELSE NShr(a, k)]
    /\ ev' = [op |-> op, d |-> d, k |-> k]

\* queries
Query(op, d, s, i) ==
    LET a == regs[d]  b == regs[s] IN
    /\ UNCHANGED regs
    /\ ev' = [op |-> op, d |-> d, s |-> s, i |-> i, ret |->
               CASE op = "cmp" -> NCmp(a, b)
                 [] op = "eq" -> a = b
                 [] op = "is_zero" -> NIsZero(a)
                 [] op = "is_odd" -> NIsOdd(a)
                 [] op = "is_even" -> ~NIsOdd(a)
                 [] op = "num_bits" -> NBitLen(a)
                 [] op = "get_bit" -> NBit(a, i) = 1
                 [] op = "to_bytes_le" -> NToBytesLE(a, 8 * NL)
                 [] op = "to_bytes_be" -> SeqReverse(NToBytesLE(a, 8 * NL))
                 [] op = "to_bits_le" -> BitsLE(a, BITS)
                 [] op = "to_bits_be" -> BitsBE(a, BITS)
                 [] op = "to_biguint" -> a
                 [] op = "to_decimal" -> BnToDecimal(a)
                 [] op = "mod_4" -> NToInt(NMod(a, N(4)))
                 [] op = "two_adic_valuation" ->     \* largest s with a = 2^s t + 1 (a odd, a >= 3)
                        LET m == NSub(a, NOne) IN
                        CHOOSE t \in 0..BITS : NBit(m, t) = 1 /\ \A u \in 0..(t-1) : NBit(m, u) = 0]

\* constructors
FromBits(d, be, bits) ==
    /\ regs' = [regs EXCEPT ![d] = Wrap(FromBitsLE(IF be THEN SeqReverse(bits) ELSE bits))]
    /\ ev' = [op |-> "from_bits", d |-> d, be |-> be, bits |-> bits]
FromSmall(d, ty, v) ==           \* From<u8/u16/u32/u64>
    /\ regs' = [regs EXCEPT ![d] = v] /\ ev' = [op |-> "from_small", d |-> d, ty |-> ty, v |-> v]
\* from an arbitrary natural: rejected when it does not fit
TryFrom(d, v) ==
    IF NLt(v, W) THEN regs' = [regs EXCEPT ![d] = v] /\ ev' = [op |-> "try_from", d |-> d, v |-> v, ret |-> "ok"]
    ELSE UNCHANGED regs /\ ev' = [op |-> "try_from", d |-> d, v |-> v, ret |-> "err"]
\* decimal text (digit sequence, leading zeros allowed, at least one digit)
FromStr(d, digits) ==
    LET v == BnFromDecimal(digits) IN
    IF Len(digits) > 0 /\ NLt(v, W) THEN regs' = [regs EXCEPT ![d] = v] /\ ev' = [op |-> "from_str", d |-> d, digits |-> digits, ret |-> "ok"]
    ELSE UNCHANGED regs /\ ev' = [op |-> "from_str", d |-> d, digits |-> digits, ret |-> "err"]

\* recodings: the returned digit string must be THE w-NAF (2 <= w <= 20); w outside 2..63 -> none
Wnaf(d, w) == /\ UNCHANGED regs
              /\ ev' = [op |-> "find_wnaf", d |-> d, w |-> w, ret |-> IF w \in 2..63 THEN WnafDef(regs[d], w) ELSE "none"]
Naf(d) == /\ UNCHANGED regs /\ ev' = [op |-> "find_naf", d |-> d, ret |-> WnafDef(regs[d], 2)]
\* relaxed NAF is a relation
RelaxedNaf(d, ds) == /\ RelaxedNafOK(ds, regs[d])
                     /\ UNCHANGED regs /\ ev' = [op |-> "find_relaxed_naf", d |-> d, ret |-> ds]
\* a canonical witness for exhaustive models: the NAF with a top "1 0 -1" rewritten to "1 1"
RelaxedNafDef(v) ==
    LET n == WnafDef(v, 2)  l == Len(n) IN
    IF l >= 3 /\ n[l] = 1 /\ n[l-1] = 0 /\ n[l-2] = -1
    THEN SubSeq(n, 1, l - 3) \o <<1, 1>> ELSE n
=============================================================================
