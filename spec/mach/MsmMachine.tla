------------------------------ MODULE MsmMachine ------------------------------
(***************************************************************************)
(* Multi-scalar multiplication over the ABSTRACT cyclic group Z_r (a base is *)
(* its discrete logarithm d with respect to the generator, so d.G; a sum     *)
(* k_1 P_1 + ... + k_n P_n is  sum k_i d_i  mod r).  One-shot entry points   *)
(* and the two incremental Pippenger accumulators, modelled the way the code *)
(* works: a buffer that is flushed into a running result when it reaches its *)
(* capacity (the HashMap variant merges equal bases first, so its length is  *)
(* the number of DISTINCT bases), plus a history variable with the sum of    *)
(* everything that was ever added.                                           *)
(***************************************************************************)
EXTENDS Integers, Sequences, SequencesExt, FiniteSets, TLC

CONSTANTS R          \* order of the group (a TLC integer in the toy models)

VARIABLES acc,       \* [kind, cap, res, buf]: the accumulator object (kind "none" before New)
          hist,      \* sum of everything added so far
          ops,       \* the history of calls (what is replayed on the real accumulator)
          ev
vars == <<acc, hist, ops, ev>>

Dot(ds, ks) == FoldLeft(LAMBDA s, i : (s + ds[i] * ks[i]) % R, 0, [i \in 1..Len(ds) |-> i] \o <<>>)
MinI(a, b) == IF a <= b THEN a ELSE b

\* one-shot entry points; lengths may differ: "checked" reports the shorter length, the others truncate
Msm(kind, ds, ks) ==
    /\ UNCHANGED <<acc, hist, ops>>
    /\ ev' = [op |-> "msm", kind |-> kind, ds |-> ds, ks |-> ks, ret |->
               IF kind = "checked" /\ Len(ds) # Len(ks) THEN [err |-> MinI(Len(ds), Len(ks))]
               ELSE LET n == MinI(Len(ds), Len(ks)) IN [ok |-> Dot(SubSeq(ds, 1, n), SubSeq(ks, 1, n))]]

----------------------------------------------------------------------------
BufSum(buf) == FoldLeft(LAMBDA s, i : (s + buf[i][1] * buf[i][2]) % R, 0, [i \in 1..Len(buf) |-> i] \o <<>>)
\* HashMap buffer: equal bases are merged (scalars added in the scalar field)
Merge(buf, d, k) ==
    IF \E i \in 1..Len(buf) : buf[i][1] = d
    THEN [i \in 1..Len(buf) |-> IF buf[i][1] = d THEN <<d, (buf[i][2] + k) % R>> ELSE buf[i]] \o <<>>
    ELSE Append(buf, <<d, k>>)

Init == /\ acc = [kind |-> "none", cap |-> 0, res |-> 0, buf |-> <<>>]
        /\ hist = 0 /\ ops = <<>> /\ ev = [op |-> "init"]

New(kind, cap) ==
    /\ acc.kind = "none"
    /\ acc' = [kind |-> kind, cap |-> cap, res |-> 0, buf |-> <<>>]
    /\ hist' = 0 /\ ops' = <<>>
    /\ ev' = [op |-> "new", kind |-> kind, cap |-> cap]

Add(d, k) ==
    /\ acc.kind # "none"
    /\ LET nb == IF acc.kind = "chunked" THEN Append(acc.buf, <<d, k>>) ELSE Merge(acc.buf, d, k)
       IN  acc' = IF Len(nb) = acc.cap                                    \* flush when the buffer is full
                  THEN [acc EXCEPT !.res = (acc.res + BufSum(nb)) % R, !.buf = <<>>]
                  ELSE [acc EXCEPT !.buf = nb]
    /\ hist' = (hist + d * k) % R
    /\ ops' = Append(ops, <<d, k>>)
    /\ ev' = [op |-> "add", d |-> d, k |-> k]

Finalize ==
    /\ acc.kind # "none"
    /\ ev' = [op |-> "finalize", kind |-> acc.kind, cap |-> acc.cap, ops |-> ops, ret |-> (acc.res + BufSum(acc.buf)) % R]
    /\ acc' = [kind |-> "none", cap |-> 0, res |-> 0, buf |-> <<>>]
    /\ UNCHANGED <<hist, ops>>

\* THE property of the accumulators: nothing that was added is ever lost or counted twice
Conservation == acc.kind # "none" => (acc.res + BufSum(acc.buf)) % R = hist
FinalizeReturnsHistory == ev.op = "finalize" => ev.ret = hist
=============================================================================
