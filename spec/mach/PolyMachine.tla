----------------------------- MODULE PolyMachine -----------------------------
(***************************************************************************)
(* Univariate polynomials (ark_poly DensePolynomial / SparsePolynomial /      *)
(* DenseOrSparsePolynomial / Evaluations) and evaluation domains over a       *)
(* prime field.  Registers hold ABSTRACT polynomials (canonical coefficient   *)
(* sequences); whether the implementation keeps one dense or sparse is a      *)
(* representation choice of the harness, and the result must not depend on    *)
(* it.  A domain is a record [n, g, h] (size, generator, coset offset).       *)
(***************************************************************************)
EXTENDS Poly, TLC

CONSTANTS P,        \* modulus of the prime field
          FGEN,     \* multiplicative generator of the field configuration
          TWOADIC,  \* two-adicity s of p - 1
          SBASE, SPOW,   \* small subgroup base b and adicity k (0, 0 when none): mixed-radix domains
          NREG

VARIABLES regs, ev
vars == <<regs, ev>>
Reg == 1..NREG
TypeOK == \A i \in Reg : IsPoly(P, regs[i])

----------------------------------------------------------------------------
(* Domains the field supports.  The 2-adic root is FGEN^t with p - 1 = 2^s t; the root of the      *)
(* large subgroup 2^s b^k is FGEN^((p-1) / (2^s b^k)).  A domain of admissible size n uses the     *)
(* corresponding power of that root, so that its generator has order exactly n.                    *)
IPow(b, k) == IF k = 0 THEN 1 ELSE b ^ k
Pm1 == NSub(P, NOne)
TwoAdicRoot  == FpPow(P, FGEN, NDiv(Pm1, NPow2(TWOADIC)))
LargeOrder   == (2 ^ TWOADIC) * IPow(SBASE, SPOW)
LargeRoot    == FpPow(P, FGEN, NDiv(Pm1, N(LargeOrder)))
IsPow2(n) == \E i \in 0..30 : n = 2 ^ i
Radix2Sizes == {2 ^ i : i \in 0..TWOADIC}
MixedSizes  == IF SBASE = 0 THEN {} ELSE {(2 ^ i) * IPow(SBASE, j) : i \in 0..TWOADIC, j \in 0..SPOW}
MinGE(S, m) == IF \E n \in S : n >= m THEN CHOOSE n \in S : n >= m /\ \A k \in S : k >= m => n <= k ELSE 0
\* size a domain of the given kind must have for a request of m elements (0 = cannot be constructed)
DomainSize(kind, m) ==
    CASE kind = "radix2" -> MinGE(Radix2Sizes, m)
      [] kind = "mixed"  -> MinGE(MixedSizes, m)
      [] kind = "general" -> IF MinGE(Radix2Sizes, m) # 0 THEN MinGE(Radix2Sizes, m) ELSE MinGE(MixedSizes, m)
\* generator used for an admissible size n
DomainGen(n) == IF n \in Radix2Sizes THEN FpPow(P, TwoAdicRoot, N((2 ^ TWOADIC) \div n))
                ELSE FpPow(P, LargeRoot, N(LargeOrder \div n))
Dom(n, h) == [n |-> n, g |-> DomainGen(n), h |-> h]
DomOK(dom) == dom.n >= 1 /\ HasOrder(P, dom.g, dom.n) /\ ~NIsZero(dom.h)

----------------------------------------------------------------------------
Init == /\ regs = [i \in Reg |-> <<>>] \o <<>>
        /\ ev = [op |-> "init"]

Load(d, c) == /\ IsPoly(P, c)
              /\ regs' = [regs EXCEPT ![d] = c] /\ ev' = [op |-> "load", d |-> d]
\* construction from an arbitrary coefficient vector (trailing zeros allowed)
FromCoeffs(d, c) == /\ regs' = [regs EXCEPT ![d] = Trim(c)] /\ ev' = [op |-> "from_coeffs", d |-> d, c |-> c]
\* construction from a term list (any order, distinct degrees, non-zero coefficients: the
\* constructor documents that it does not combine like terms and it keeps explicit zeros)
FromTerms(d, t) == /\ \A i, j \in 1..Len(t) : i # j => t[i][1] # t[j][1]
                   /\ \A i \in 1..Len(t) : ~NIsZero(t[i][2])
                   /\ regs' = [regs EXCEPT ![d] = SparseToDense(P, t)] /\ ev' = [op |-> "from_terms", d |-> d, t |-> t]

Bin(op, d, s) ==
    LET a == regs[d]  b == regs[s] IN
    CASE op = "add" -> regs' = [regs EXCEPT ![d] = PAdd(P, a, b)] /\ ev' = [op |-> op, d |-> d, s |-> s]
      [] op = "sub" -> regs' = [regs EXCEPT ![d] = PSub(P, a, b)] /\ ev' = [op |-> op, d |-> d, s |-> s]
      [] op = "mul" -> regs' = [regs EXCEPT ![d] = PMul(P, a, b)] /\ ev' = [op |-> op, d |-> d, s |-> s]
      [] op = "div" -> /\ Len(b) > 0                         \* quotient to regs[d], remainder returned
                       /\ regs' = [regs EXCEPT ![d] = PDivMod(P, a, b)[1]]
                       /\ ev' = [op |-> op, d |-> d, s |-> s, ret |-> PDivMod(P, a, b)[2]]
Neg(d) == regs' = [regs EXCEPT ![d] = PNeg(P, regs[d])] /\ ev' = [op |-> "neg", d |-> d]
Scale(d, f) == regs' = [regs EXCEPT ![d] = PScale(P, regs[d], f)] /\ ev' = [op |-> "scale", d |-> d, f |-> f]
\* regs[d] += f * regs[s]
AddScaled(d, f, s) == /\ regs' = [regs EXCEPT ![d] = PAdd(P, regs[d], PScale(P, regs[s], f))]
                      /\ ev' = [op |-> "add_scaled", d |-> d, f |-> f, s |-> s]

Query(op, d, s, x) ==
    /\ UNCHANGED regs
    /\ ev' = [op |-> op, d |-> d, s |-> s, x |-> x, ret |->
               CASE op = "evaluate" -> PEval(P, regs[d], x)
                 [] op = "degree" -> MaxN(PDeg(regs[d]), 0)
                 [] op = "is_zero" -> Len(regs[d]) = 0
                 [] op = "eq" -> regs[d] = regs[s]
                 [] op = "coeffs" -> regs[d]
                 [] op = "terms" -> DenseToSparse(regs[d])]

\* operations that involve a domain dom = [n, g, h]
EvalOverDomain(d, dom) ==
    /\ DomOK(dom) /\ UNCHANGED regs
    /\ ev' = [op |-> "evaluate_over_domain", d |-> d, dom |-> dom, ret |-> Dft(P, dom.g, dom.h, dom.n, regs[d])]
Interpolate(d, dom, v) ==
    /\ DomOK(dom) /\ Len(v) = dom.n
    /\ regs' = [regs EXCEPT ![d] = Idft(P, dom.g, dom.h, dom.n, v)]
    /\ ev' = [op |-> "interpolate", d |-> d, dom |-> dom, v |-> v]
MulByVanishing(d, dom) ==
    /\ DomOK(dom)
    /\ regs' = [regs EXCEPT ![d] = PMul(P, regs[d], VanishPoly(P, dom.h, dom.n))]
    /\ ev' = [op |-> "mul_by_vanishing_poly", d |-> d, dom |-> dom]
DivByVanishing(d, dom) ==
    /\ DomOK(dom)
    /\ regs' = [regs EXCEPT ![d] = PDivMod(P, regs[d], VanishPoly(P, dom.h, dom.n))[1]]
    /\ ev' = [op |-> "divide_by_vanishing_poly", d |-> d, dom |-> dom, ret |-> PDivMod(P, regs[d], VanishPoly(P, dom.h, dom.n))[2]]

----------------------------------------------------------------------------
(* Domain objects (C07).  All of these return a value and leave the registers alone. *)
\* construction: the size is the minimal admissible one, "none" exactly when there is none
NewDomain(kind, m) ==
    /\ UNCHANGED regs
    /\ ev' = [op |-> "new_domain", kind |-> kind, m |-> m, ret |->
               IF DomainSize(kind, m) = 0 THEN "none" ELSE Dom(DomainSize(kind, m), NOne)]
DomQuery(op, dom, i, tau, v) ==
    /\ DomOK(dom) /\ UNCHANGED regs
    /\ ev' = [op |-> op, dom |-> dom, i |-> i, tau |-> tau, v |-> v, ret |->
               CASE op = "element" -> DomElem(P, dom.g, dom.h, i)
                 [] op = "elements" -> DomElems(P, dom.g, dom.h, dom.n)
                 [] op = "fft" -> Dft(P, dom.g, dom.h, dom.n, Trim(v))            \* Len(v) <= n
                 [] op = "ifft" -> LET c == Idft(P, dom.g, dom.h, dom.n, v)      \* Len(v) = n; padded to n
                                   IN  [k \in 1..dom.n |-> Coef(c, k - 1)] \o <<>>
                 [] op = "vanishing_eval" -> VanishEval(P, dom.h, dom.n, tau)
                 [] op = "vanishing_poly" -> VanishPoly(P, dom.h, dom.n)
                 [] op = "lagrange_all" -> [k \in 1..dom.n |-> Lagrange(P, dom.g, dom.h, dom.n, k - 1, tau)] \o <<>>
                 [] op = "size_inv" -> FpInv(P, NMod(N(dom.n), P))
                 [] op = "gen_inv" -> FpInv(P, dom.g)]
=============================================================================
