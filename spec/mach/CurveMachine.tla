----------------------------- MODULE CurveMachine -----------------------------
(***************************************************************************)
(* A register machine over the points of one elliptic curve C (see Curve).   *)
(* Registers hold ABSTRACT points (affine pairs or the identity); the        *)
(* implementation's Jacobian / extended coordinates are related to them by   *)
(* Curve!JacToAffine / ExtToAffine, and every action must give the same      *)
(* abstract result for every representative of its operands (the harness     *)
(* replays each transition through all projective rescalings) and through    *)
(* every algorithm that claims to compute it (double-and-add, bit streams,   *)
(* w-NAF with fresh or precomputed tables, GLV, fixed-base tables).          *)
(***************************************************************************)
EXTENDS Curve, TLC

CONSTANTS C, NREG
VARIABLES regs, ev
vars == <<regs, ev>>
Reg == 1..NREG
Id  == Identity(C)

TypeOK == \A i \in Reg : OnCurve(C, regs[i])

\* the addition law is total on short Weierstrass curves and on complete Edwards curves; on an
\* incomplete Edwards curve it is only claimed where the denominators do not vanish
Defined(P, Q) == IF C.kind = "sw" THEN TRUE ELSE TEDefined(C, P, Q)

Init == /\ regs = [i \in Reg |-> Id] \o <<>>
        /\ ev = [op |-> "init"]

Load(d, P) == /\ OnCurve(C, P)
              /\ regs' = [regs EXCEPT ![d] = P] /\ ev' = [op |-> "load", d |-> d]

Add(d, s) == /\ Defined(regs[d], regs[s])
             /\ regs' = [regs EXCEPT ![d] = PAdd(C, regs[d], regs[s])]
             /\ ev' = [op |-> "add", d |-> d, s |-> s]
Sub(d, s) == /\ Defined(regs[d], PNeg(C, regs[s]))
             /\ regs' = [regs EXCEPT ![d] = PSub(C, regs[d], regs[s])]
             /\ ev' = [op |-> "sub", d |-> d, s |-> s]
Dbl(d) == /\ Defined(regs[d], regs[d])
          /\ regs' = [regs EXCEPT ![d] = PDbl(C, regs[d])] /\ ev' = [op |-> "dbl", d |-> d]
Neg(d) == /\ regs' = [regs EXCEPT ![d] = PNeg(C, regs[d])] /\ ev' = [op |-> "neg", d |-> d]

\* sum of a list of registers
Sum(d, ss) == /\ regs' = [regs EXCEPT ![d] = PSum(C, [i \in 1..Len(ss) |-> regs[ss[i]]] \o <<>>)]
              /\ ev' = [op |-> "sum", d |-> d, ss |-> ss]

\* k.P for any natural k (the code receives k as u64 limbs, a bit stream, a scalar-field element
\* - then k < r -, or through a recoding); alg names the path, the result does not depend on it
Mul(d, k, alg) == /\ regs' = [regs EXCEPT ![d] = PMul(C, k, regs[d])]
                  /\ ev' = [op |-> "mul", d |-> d, k |-> k, alg |-> alg]

\* subgroup / cofactor operations (C12)
InSub(P) == PMul(C, C.r, P) = Id
Query(op, d, s) ==
    /\ UNCHANGED regs
    /\ ev' = [op |-> op, d |-> d, s |-> s, ret |->
               CASE op = "eq" -> regs[d] = regs[s]
                 [] op = "is_zero" -> regs[d] = Id
                 [] op = "on_curve" -> OnCurve(C, regs[d])
                 [] op = "in_subgroup" -> InSub(regs[d])]
\* cofactor clearing: multiplication by one fixed integer heff coprime to r (the cofactor by default)
ClearCofactor(d, heff) ==
    /\ regs' = [regs EXCEPT ![d] = PMul(C, heff, regs[d])] /\ ev' = [op |-> "clear_cofactor", d |-> d]
\* optimised clearing maps whose effective cofactor is not standardised are only required to land in
\* the prime-order subgroup (Q is the point handed back)
ClearCofactorRel(d, Q) ==
    /\ OnCurve(C, Q) /\ InSub(Q)
    /\ regs' = [regs EXCEPT ![d] = Q] /\ ev' = [op |-> "clear_cofactor", d |-> d]
MulByCofactor(d) ==
    /\ regs' = [regs EXCEPT ![d] = PMul(C, C.h, regs[d])] /\ ev' = [op |-> "mul_by_cofactor", d |-> d]
\* multiplication by h^-1 mod r: only meaningful on the prime-order subgroup
MulByCofactorInv(d) ==
    /\ InSub(regs[d])
    /\ regs' = [regs EXCEPT ![d] = PMul(C, NModInv(NMod(C.h, C.r), C.r), regs[d])]
    /\ ev' = [op |-> "mul_by_cofactor_inv", d |-> d]

\* ---- coordinate recovery (C11), sampling (C12), GLV (C04): results the code may choose among are RELATIONS
\* both solutions u for the other coordinate of c, in lexicographic order; <<>> when there is none
\*   short Weierstrass: u^2 = c^3 + a c + b          twisted Edwards: u^2 (a - d c^2) = 1 - c^2
RecoverOK(c, ret) ==
    IF C.kind = "sw"
    THEN LET rhs == SWRhs(C, c) IN
         IF ~TIsSquare(C.F, C.K, rhs) THEN ret = <<>>
         ELSE Len(ret) = 2 /\ FMul(C, ret[1], ret[1]) = rhs /\ ret[2] = FNeg(C, ret[1]) /\ LexLe(C, ret[1], ret[2])
    ELSE LET c2 == FMul(C, c, c)  num == FSub(C, FOne(C), c2)  den == FSub(C, C.a, FMul(C, C.d, c2)) IN
         IF den = FZero(C) \/ ~TIsSquare(C.F, C.K, FMul(C, num, FInv(C, den))) THEN ret = <<>>
         ELSE Len(ret) = 2 /\ FMul(C, FMul(C, ret[1], ret[1]), den) = num /\ ret[2] = FNeg(C, ret[1]) /\ LexLe(C, ret[1], ret[2])
Recover(c, ret) == /\ FIsElem(C, c) /\ RecoverOK(c, ret) /\ UNCHANGED regs /\ ev' = [op |-> "recover", ret |-> "ok"]
\* the point with coordinate c and the lexicographically greater / smaller other coordinate (P = <<>> for "none" is
\* expressed by the caller through Recover); the register takes the returned point P
FromCoord(d, c, greatest, P) ==
    LET u == IF C.kind = "sw" THEN P[2] ELSE P[1]  nu == FNeg(C, u) IN
    /\ P # Inf /\ (IF C.kind = "sw" THEN P[1] = c ELSE P[2] = c) /\ OnCurve(C, P)
    /\ (IF greatest THEN LexLe(C, nu, u) ELSE LexLe(C, u, nu))
    /\ regs' = [regs EXCEPT ![d] = P] /\ ev' = [op |-> "from_coord", d |-> d]
\* random sampling only produces points of the prime-order subgroup
RandPoint(d, P) == /\ OnCurve(C, P) /\ InSub(P) /\ regs' = [regs EXCEPT ![d] = P] /\ ev' = [op |-> "rand", d |-> d]
\* GLV decomposition: signed halves with k = k1 + lambda k2 (mod r), both short
SignedModR(pos, v) == LET m == NMod(v, C.r) IN IF pos \/ NIsZero(m) THEN m ELSE NSub(C.r, m)
GlvDecomp(k, s1, k1, s2, k2) ==
    /\ NMod(NAdd(SignedModR(s1, k1), NMod(NMul(C.lambda, SignedModR(s2, k2)), C.r)), C.r) = NMod(k, C.r)
    /\ 2 * NBitLen(k1) <= NBitLen(C.r) + 6 /\ 2 * NBitLen(k2) <= NBitLen(C.r) + 6
    /\ UNCHANGED regs /\ ev' = [op |-> "glv_decomp", ret |-> "ok"]

\* multi-scalar multiplication over bases that are known multiples as[i] of the point in register s:
\*   regs[d] := sum_i ks[i] * (as[i] * regs[s]) = (sum_i ks[i] as[i]) * regs[s]      (integers, no reduction needed)
\* (full-size MSM: any number of terms costs the specification one scalar multiplication)
MsmLin(d, s, as, ks, alg) ==
    /\ Len(as) = Len(ks)
    /\ regs' = [regs EXCEPT ![d] = PMul(C, FoldLeft(LAMBDA acc, i : NAdd(acc, NMul(as[i], ks[i])), NZero, UpTo(1, Len(as))), regs[s])]
    /\ ev' = [op |-> "msm", d |-> d, s |-> s, alg |-> alg]

\* representation-only steps (abstract state unchanged): conversions, batch normalisation
Repr(op, ds) == /\ UNCHANGED regs /\ ev' = [op |-> op, ds |-> ds]
=============================================================================
