------------------------------ MODULE MC_H2C_RFC ------------------------------
(* Validates the specification's binding of the abstract hash to the JVM SHA-2 and its      *)
(* expand_message_xmd / hash_to_field against the RFC 9380 test vectors that ship with the  *)
(* repository (JSON files under /repo).                                                    *)
EXTENDS H2C, Json, TLC

HexVal(c) == CHOOSE d \in 0..15 : c = <<"0", "1", "2", "3", "4", "5", "6", "7", "8", "9", "a", "b", "c", "d", "e", "f">>[d + 1]
\* strings are sequences of characters only inside TLC's Java; the vectors are pre-converted by lib/rfcvec.py
Vec == JsonDeserialize("/verif/spec/toy/rfc_vectors.json")

XmdOK == \A i \in 1..Len(Vec.xmd) :
            LET t == Vec.xmd[i] IN ExpandXmd(t.hash, t.msg, t.dst, t.len) = t.out
H2FOK == \A i \in 1..Len(Vec.h2f) :
            LET t == Vec.h2f[i] IN HashToField(t.hash, t.p, t.m, 128, t.msg, t.dst, 2) = t.u
ASSUME PrintT(<<"rfc vectors", Len(Vec.xmd), Len(Vec.h2f)>>)
ASSUME XmdOK
ASSUME H2FOK
VARIABLE x
Init == x = 0
Next == UNCHANGED x
=============================================================================
