------------------------------- MODULE MC_Poly -------------------------------
(***************************************************************************)
(* Exhaustive toy models of PolyMachine over the prime field IOEnv.CFG of     *)
(* the catalogue.                                                             *)
(*  MODE = "arith"  : all ordered pairs of polynomials of degree < DEG        *)
(*                    x add / sub / mul / div / scaled add / eq               *)
(*  MODE = "unary"  : every polynomial of degree < DEG x scaling, evaluation, *)
(*                    canonical forms, vanishing-polynomial mul/div,          *)
(*                    evaluation over every small domain and coset (also      *)
(*                    polynomials longer than the domain) and interpolation   *)
(*  MODE = "domain" : every constructible domain up to MAXN: construction     *)
(*                    (all requests 0..MAXN+1, all kinds), elements, FFT of   *)
(*                    every unit vector / all-ones / a dense vector for every *)
(*                    input length 0..n, IFFT, vanishing polynomial and       *)
(*                    Lagrange coefficients at every field element (small p)  *)
(*                    or at domain and off-domain samples                     *)
(*  MODE = "fftbig" : domains of MAXN/4..MAXN elements: FFT / IFFT at the      *)
(*                    lengths around the degree-aware threshold               *)
(*  MODE = "polybig": polynomials of 15..MAXN coefficients (lengths around    *)
(*                    16, 32, 64, 128, 256 and between): evaluation, linear   *)
(*                    operations, products and quotients with small and large *)
(*                    operands - the sizes at which the chunked / parallel    *)
(*                    code paths of ark-poly split their input                *)
(* Invariant: the specification's own theorems (ring laws, division identity, *)
(* interpolation inverts evaluation, Lagrange basis property).                *)
(***************************************************************************)
EXTENDS PolyMachine, Json, IOUtils, VerifIO, FiniteSets

Cat  == JsonDeserialize("/verif/spec/toy/catalogue.json")
FC   == Cat.fields[IOEnv.CFG]
MODE == IOEnv.MODE
DEG  == atoi(IOEnv.DEG)
MAXN == atoi(IOEnv.MAXN)
MCP     == FC.p
MCGEN   == FC.gen
MCTWO   == FC.two_adicity
MCSBASE == IF "small_subgroup_base" \in DOMAIN FC THEN FC.small_subgroup_base ELSE 0
MCSPOW  == IF "small_subgroup_power" \in DOMAIN FC THEN FC.small_subgroup_power ELSE 0
MCNREG  == IF MODE \in {"arith", "polybig"} THEN 2 ELSE 1

Fp == 0..(P - 1)
Polys(deg) == {Trim(c) : c \in UNION {[1..k -> Fp] : k \in 0..deg}}
Sizes == {n \in Radix2Sizes \cup MixedSizes : n <= MAXN}
Offsets == {1, FGEN, FpMul(P, FGEN, FGEN), FpNeg(P, 1)}
Doms == {Dom(n, h) : n \in Sizes, h \in Offsets}

\* large patterned polynomials
BigLens == {n \in {15, 16, 17, 18, 31, 32, 33, 34, 47, 48, 49, 63, 64, 65, 66, 100, 127, 128, 129, 130, 200, 255, 256, 257, 258, 300, 511, 512, 513, 1000, 1023, 1024, 1025} : n <= MAXN}
Pat(len, k) == Trim([i \in 1..len |-> CASE k = 1 -> (i * i + 3) % P [] k = 2 -> 1 [] k = 3 -> (7 * i + 1) % P [] k = 4 -> (IF i = len THEN 1 ELSE 0)] \o <<>>)
BigPolys == {Pat(len, k) : len \in BigLens, k \in 1..2}
SecondPolys == {<<>>, Pat(1, 3), Pat(3, 3), Pat(17, 3), Pat(17, 4), Pat(65, 3)}
MCInit == /\ IF MODE = "polybig" THEN regs \in {<<a, b>> : a \in BigPolys, b \in SecondPolys}
             ELSE regs \in [Reg -> (IF MODE \in {"domain", "fftbig"} THEN {<<>>} ELSE Polys(DEG))]
          /\ ev = [op |-> "init"]

ArithNext ==
    \/ \E op \in {"add", "sub", "mul", "div"} : Bin(op, 1, 2)
    \/ \E f \in {0, 1, P - 1, 2 % P} : AddScaled(1, f, 2)
    \/ Query("eq", 1, 2, 0)
    \/ Bin("add", 1, 1) \/ Bin("sub", 1, 1) \/ Bin("mul", 1, 1)

UnaryNext ==
    \/ Neg(1) \/ \E f \in {0, 1, 2 % P, P - 1} : Scale(1, f)
    \/ \E x \in {0, 1, 2 % P, P - 1, FGEN} : Query("evaluate", 1, 1, x)
    \/ \E op \in {"degree", "is_zero", "coeffs", "terms"} : Query(op, 1, 1, 0)
    \/ FromCoeffs(1, regs[1] \o <<0>>) \/ FromCoeffs(1, regs[1] \o <<0, 0, 0>>) \/ FromCoeffs(1, <<0>>)
    \/ FromTerms(1, SeqReverse(DenseToSparse(regs[1]))) \/ FromTerms(1, <<<<7, 1>>>> \o DenseToSparse(regs[1]))
    \/ \E dom \in Doms : EvalOverDomain(1, dom) \/ MulByVanishing(1, dom) \/ DivByVanishing(1, dom)
    \/ \E dom \in Doms : Interpolate(1, dom, [i \in 1..dom.n |-> Coef(regs[1], (i - 1) % MaxN(Len(regs[1]), 1))] \o <<>>)

UnitVec(n, k) == [i \in 1..n |-> IF i = k THEN 1 ELSE 0] \o <<>>
TestVecs(len) == {UnitVec(len, k) : k \in 1..len} \cup {[i \in 1..len |-> 1] \o <<>>, [i \in 1..len |-> (i * i + 3) % P] \o <<>>,
                                                        [i \in 1..len |-> 0] \o <<>>}
Taus == IF P <= 31 THEN Fp ELSE {0, 1, 2, P - 1, FGEN, TwoAdicRoot}
DomainNext ==
    \/ \E kind \in {"radix2", "mixed", "general"}, m \in 0..(MAXN + 1) : NewDomain(kind, m)
    \/ \E kind \in {"radix2", "mixed", "general"}, m \in {LargeOrder, LargeOrder + 1, 2 ^ TWOADIC, 2 ^ TWOADIC + 1} : NewDomain(kind, m)
    \/ \E dom \in Doms :
         \/ \E i \in 0..(dom.n + 1) : DomQuery("element", dom, i, 0, <<>>)
         \/ \E op \in {"elements", "vanishing_poly", "size_inv", "gen_inv"} : DomQuery(op, dom, 0, 0, <<>>)
         \/ \E len \in 0..dom.n : \E v \in TestVecs(len) : DomQuery("fft", dom, 0, 0, v)
         \/ \E v \in TestVecs(dom.n) : DomQuery("ifft", dom, 0, 0, v)
         \/ \E tau \in Taus \cup {DomElem(P, dom.g, dom.h, 0), DomElem(P, dom.g, dom.h, dom.n - 1)} :
               DomQuery("vanishing_eval", dom, 0, tau, <<>>) \/ DomQuery("lagrange_all", dom, 0, tau, <<>>)

\* larger domains (sizes MAXN/4 .. MAXN): a few input vectors at the lengths around the degree-aware
\* threshold (4 len <= n) - these sizes reach the chunked / parallel code paths
BigSizes == {n \in Sizes : 4 * n >= MAXN}
BigVec(len, kind) == CASE kind = 1 -> UnitVec(len, 1) [] kind = 2 -> UnitVec(len, len) [] kind = 3 -> [i \in 1..len |-> 1] \o <<>>
                      [] kind = 4 -> [i \in 1..len |-> (7 * i * i + 3 * i + 1) % P] \o <<>>
FftBigNext ==
    \E n \in BigSizes, h \in {1, FGEN} :
      \/ \E len \in {l \in {1, n \div 4, n \div 4 + 1, n \div 2, n - 1, n} : l >= 1}, kind \in 1..4 : DomQuery("fft", Dom(n, h), 0, 0, BigVec(len, kind))
      \/ \E kind \in 1..4 : DomQuery("ifft", Dom(n, h), 0, 0, BigVec(n, kind))
      \/ DomQuery("elements", Dom(n, h), 0, 0, <<>>)
      \/ \E tau \in {2, FGEN} : DomQuery("lagrange_all", Dom(n, h), 0, tau, <<>>)
PolyBigNext ==
    \/ \E x \in {0, 1, 2, P - 1, FGEN} : Query("evaluate", 1, 1, x)
    \/ Neg(1) \/ Scale(1, 2) \/ Scale(1, 0)
    \/ \E op \in {"add", "sub", "mul"} : Bin(op, 1, 2) \/ Bin(op, 2, 1)
    \/ (Len(regs[2]) > 0 /\ Bin("div", 1, 2))
    \/ AddScaled(1, 3, 2) \/ AddScaled(2, P - 1, 1)
    \/ Bin("add", 1, 1) \/ Bin("sub", 1, 1)
    \/ \E op \in {"degree", "is_zero", "coeffs", "terms"} : Query(op, 1, 1, 0)
    \/ Query("eq", 1, 2, 0)
MCNext == /\ ev.op = "init"
          /\ CASE MODE = "polybig" -> PolyBigNext [] MODE = "arith" -> ArithNext [] MODE = "unary" -> UnaryNext [] MODE = "domain" -> DomainNext [] MODE = "fftbig" -> FftBigNext

View == regs
Emit == EmitLine(ToJson([pre |-> regs, ev |-> ev', post |-> regs']))

A1 == regs[1]
A2 == regs[NREG]
SpecOK ==
    /\ TypeOK
    /\ MODE = "arith" =>
         /\ PAdd(P, A1, A2) = PAdd(P, A2, A1) /\ PMul(P, A1, A2) = PMul(P, A2, A1)
         /\ PSub(P, PAdd(P, A1, A2), A2) = A1
         /\ IsPoly(P, PMul(P, A1, A2)) /\ IsPoly(P, PSub(P, A1, A2))
         /\ \A x \in {0, 1, FGEN} : PEval(P, PMul(P, A1, A2), x) = FpMul(P, PEval(P, A1, x), PEval(P, A2, x))
         /\ Len(A2) > 0 => LET qr == PDivMod(P, A1, A2) IN
                             /\ PAdd(P, PMul(P, qr[1], A2), qr[2]) = A1 /\ Len(qr[2]) < Len(A2)
                             /\ IsPoly(P, qr[1]) /\ IsPoly(P, qr[2])
    /\ MODE = "unary" =>
         /\ SparseToDense(P, DenseToSparse(A1)) = A1 /\ IsSparse(P, DenseToSparse(A1))
         /\ \A dom \in Doms : Len(A1) <= dom.n => Idft(P, dom.g, dom.h, dom.n, Dft(P, dom.g, dom.h, dom.n, A1)) = A1
    /\ MODE = "domain" =>
         \A dom \in Doms :
           /\ DomOK(dom)
           /\ \A i \in 0..(dom.n - 1) : VanishEval(P, dom.h, dom.n, DomElem(P, dom.g, dom.h, i)) = 0
           /\ \A i, j \in 0..(dom.n - 1) : Lagrange(P, dom.g, dom.h, dom.n, i, DomElem(P, dom.g, dom.h, j)) = (IF i = j THEN 1 ELSE 0)
           \* the O(n) relations used at full size (Trace_Poly) are theorems of the definitions (checked on the domains of up to
           \* 32 elements: the product formula costs n^3 per domain)
           /\ dom.n <= 32 => \A i \in 0..(dom.n - 1), tau \in Taus : LagrangeClosed(P, dom.g, dom.h, dom.n, i, tau) = Lagrange(P, dom.g, dom.h, dom.n, i, tau)
           /\ dom.n <= 32 => \A len \in {0, 1, dom.n - 1, dom.n, dom.n + 3} : len >= 0 =>
                 LET v == [k \in 1..len |-> (k * k + 3) % P] \o <<>> IN
                 /\ \A z \in Taus : DftIdentity(P, dom.g, dom.h, dom.n, v, Dft(P, dom.g, dom.h, dom.n, Trim(v)), z)
                 \* and it discriminates: a wrong vector is rejected for all but < n values of z
                 /\ P <= 300 => LET bad == [Dft(P, dom.g, dom.h, dom.n, Trim(v)) EXCEPT ![1] = (@ + 1) % P] IN
                       Cardinality({z \in Fp : DftIdentity(P, dom.g, dom.h, dom.n, v, bad, z)}) < dom.n
=============================================================================
