------------------------------ MODULE MC_Field ------------------------------
(***************************************************************************)
(* Exhaustive toy model of FieldMachine.  The field comes from the toy       *)
(* catalogue (spec/toy/catalogue.json, entry IOEnv.CFG); every state (all    *)
(* register contents) is an initial state, so every action is explored from  *)
(* every operand tuple.  Each explored transition is printed as one JSON     *)
(* line (ACTION_CONSTRAINT Emit) and replayed on the real generic code by    *)
(* the Rust harness (conformance A).  The invariants are the field axioms:   *)
(* they check the ORACLE (Tower) itself, independently of any code.          *)
(***************************************************************************)
EXTENDS FieldMachine, Json, IOUtils, VerifIO, FiniteSets

Cat   == JsonDeserialize("/verif/spec/toy/catalogue.json")
Cfg   == Cat.fields[IOEnv.CFG]
MCF   == [p |-> Cfg.p, lv |-> Cfg.lv]
MCK   == Len(Cfg.lv)
MODE  == IOEnv.MODE            \* "arith" | "unary" | "conv" | "tower"
MCNREG == IF MODE = "arith" THEN 2 ELSE 1

\* operand alphabet: all elements, or (for towers too large to enumerate) the structured
\* sub-alphabet "at most NZ non-zero coordinates over the prime field, drawn from {1, 2, p-1}"
\* (this is where Karatsuba / sparse shortcuts differ) plus a few dense elements
DegT   == TExtDeg(F, K)
CoordV == {1, 2, F.p - 1}
SparseCoords(nz) ==
    IF nz = 1 THEN {[i \in 1..DegT |-> IF i = a THEN x ELSE 0] : a \in 1..DegT, x \in {0} \cup CoordV}
    ELSE {[i \in 1..DegT |-> IF i = a THEN x ELSE IF i = b THEN y ELSE 0] :
              a \in 1..DegT, b \in 1..DegT, x \in {0} \cup CoordV, y \in {0} \cup CoordV}
DenseCoords == {[i \in 1..DegT |-> 1], [i \in 1..DegT |-> F.p - 1], [i \in 1..DegT |-> (i * i + 1) % F.p],
                [i \in 1..DegT |-> (3 * i + 2) % F.p]}
SparseElems(nz) == {TUnflatten(F, K, c \o <<>>) : c \in SparseCoords(nz) \cup DenseCoords}
Elems == IF Cfg.alpha = "all" THEN TElems(F, K)
         ELSE SparseElems(IF MODE = "arith" THEN 1 ELSE 2)

\* elements of the cyclotomic subgroup for the structured alphabets: y^((p^n - 1) / Phi_n(p)) through Frobenius maps
CycProj(y) == LET n == TExtDeg(F, K)
                  e1 == TMul(F, K, TFrob(F, K, y, n \div 2), TInv(F, K, y))           \* y^(p^(n/2) - 1)
              IN  IF n = 12 THEN TMul(F, K, TFrob(F, K, e1, 2), e1)                    \* ... ^(p^2 + 1)
                  ELSE IF n = 6 THEN TMul(F, K, TFrob(F, K, e1, 1), e1)                \* ... ^(p + 1)
                  ELSE e1
TowerElems == IF Cfg.alpha = "all" \/ K = 0 \/ TExtDeg(F, K) % 2 = 1 THEN Elems
              ELSE Elems \cup {CycProj(y) : y \in Elems \ {Zero}}
MCInit == /\ regs \in [Reg -> (IF MODE = "conv" THEN {Zero} ELSE IF MODE = "tower" THEN TowerElems ELSE Elems)]
          /\ ev = [op |-> "init"]

\* exponents for pow: boundary values around the group order
Small == Cfg.alpha = "all"      \* the field is small enough to enumerate (and its order fits 31 bits)
PowExps == {0, 1, 2, 3, F.p - 1, F.p, F.p + 1} \cup (IF K = 0 \/ ~Small THEN {} ELSE {TOrder(F, K) - 1, TOrder(F, K)})
FrobNs  == 0..(TExtDeg(F, K) + 1)

IntTypes == <<[ty |-> "u8",  bits |-> 8,  signed |-> FALSE], [ty |-> "u16", bits |-> 16, signed |-> FALSE],
              [ty |-> "u32", bits |-> 32, signed |-> FALSE], [ty |-> "u64", bits |-> 64, signed |-> FALSE],
              [ty |-> "u128", bits |-> 128, signed |-> FALSE],
              [ty |-> "i8",  bits |-> 8,  signed |-> TRUE],  [ty |-> "i16", bits |-> 16, signed |-> TRUE],
              [ty |-> "i32", bits |-> 32, signed |-> TRUE],  [ty |-> "i64", bits |-> 64, signed |-> TRUE],
              [ty |-> "i128", bits |-> 128, signed |-> TRUE], [ty |-> "bool", bits |-> 1, signed |-> FALSE]>>
\* magnitudes that fit TLC integers: small values and neighbours of multiples of p
SmallMags == {0, 1, 2, 127, 128, 255} \cup {m \in {F.p - 1, F.p, F.p + 1, 2 * F.p, 2 * F.p + 1, 3 * F.p - 1} : m >= 0}
\* magnitudes here are all < 2^17, so only the 8- and 16-bit types can overflow
Lim(bits) == IF bits = 1 THEN 2 ELSE IF bits = 8 THEN 256 ELSE IF bits = 16 THEN 65536 ELSE 1000000000
FitsInt(t, neg, mag) ==
    IF t.ty = "bool" THEN ~neg /\ mag \in {0, 1}
    ELSE IF t.signed THEN (IF neg THEN mag >= 1 /\ mag * 2 <= Lim(t.bits) ELSE mag * 2 < Lim(t.bits))
    ELSE ~neg /\ mag < Lim(t.bits)

ByteStrs(maxlen) == UNION {[1..n -> 0..255] : n \in 0..maxlen}

ArithNext ==
    \/ \E op \in {"add", "sub", "mul", "div"}, s \in Reg : Bin(op, 1, s)
    \/ \E op \in {"add", "mul"} : Bin(op, 2, 1)
    \/ \E op \in {"eq", "cmp"} : Query(op, 1, 2)
    \/ SumProd(1, <<1, 2>>, <<2, 2>>) \/ SumProd(2, <<1>>, <<2>>)
    \/ SumProd(1, <<1, 2, 1>>, <<2, 1, 1>>) \/ SumProd(1, <<>>, <<>>)
    \/ SumProd(1, <<1, 2, 1, 2, 1>>, <<2, 2, 1, 1, 2>>)
    \/ BatchInv(<<1, 2>>, 0) \/ BatchInv(<<2>>, 1) \/ BatchInv(<<>>, 0)

UnaryNext ==
    \/ \E op \in {"neg", "dbl", "sqr", "inv"} : Un(op, 1)
    \/ \E e \in PowExps : Pow(1, e)
    \/ \E n \in FrobNs : Frob(1, n)
    \/ \E op \in {"is_zero", "is_one", "legendre"} : Query(op, 1, 1)
    \/ \E y \in (IF Cfg.alpha = "all" THEN Elems ELSE {}) : Sqrt(1, TRUE, y)
    \/ (Cfg.alpha = "all" /\ Sqrt(1, FALSE, Zero))
    \/ Bin("add", 1, 1) \/ Bin("sub", 1, 1) \/ Bin("mul", 1, 1)
    \/ BatchInv(<<1>>, 0)
    \/ (K = 0 /\ IntoBigInt(1)) \/ (K = 0 /\ ToStr(1))

\* tower-specific operations: every element x norm / conjugate / multiplication by every subfield sample / every sparse
\* multiplication with coefficient samples; every element of the cyclotomic subgroup x fast square / inverse / exponentiation
LevelSamples(j) == IF j = 0 THEN {0, 1, 2, F.p - 1} ELSE {TZero(F, j), TOne(F, j)} \cup {TUnflatten(F, j, [i \in 1..TExtDeg(F, j) |-> (i * i + 1) % F.p] \o <<>>),
                                                                                        TUnflatten(F, j, [i \in 1..TExtDeg(F, j) |-> IF i = TExtDeg(F, j) THEN F.p - 1 ELSE 0] \o <<>>)}
SlotSets == IF K < 2 THEN {} ELSE IF Deg(F, K) = 3 THEN {<<0, 1>>, <<1>>} ELSE IF Deg(F, K - 1) = 3 THEN {<<0, 3, 4>>, <<0, 1, 4>>} ELSE {}
CycExps == {0, 1, 2, 3, 7, F.p - 1, F.p, F.p + 1, 255, 256}
TowerNext ==
    \/ Norm(1) \/ Conj(1)
    \/ \E j \in 0..(K - 1) : \E s \in LevelSamples(j) : MulBase(1, j, s)
    \/ \E sl \in SlotSets : \E c1 \in LevelSamples(SlotLevel(F, K)), c2 \in LevelSamples(SlotLevel(F, K)), c3 \in {TOne(F, SlotLevel(F, K)), TZero(F, SlotLevel(F, K))} :
          Sparse(1, sl, SubSeq(<<c1, c2, c3>>, 1, Len(sl)))
    \/ CycSq(1) \/ CycInv(1) \/ \E e \in CycExps : CycExp(1, e)

ConvNext ==
  /\ ev.op = "init"         \* constructors do not depend on the pre-state: explore from Init only
  /\
    \/ \E i \in 1..Len(IntTypes), neg \in BOOLEAN, mag \in SmallMags :
          FitsInt(IntTypes[i], neg, mag) /\ FromInt(1, IntTypes[i].ty, neg, mag)
    \/ (K = 0 /\ \E be \in BOOLEAN, bs \in ByteStrs(2) : FromBytesMod(1, be, bs))
    \/ (K = 0 /\ \E v \in 0..(2 * F.p + 2) : FromBigInt(1, v))
    \/ (K = 0 /\ \E neg \in BOOLEAN, mag \in SmallMags \cup {10, 99, 100, 65535, 65536, 1000000, 999999999} : FromStr(1, neg, mag))

\* every operand tuple of the alphabet is an initial state; successors are not explored further
\* (for the complete alphabets they are initial states anyway)
MCNext == /\ ev.op = "init"
          /\ CASE MODE = "arith" -> ArithNext
               [] MODE = "unary" -> UnaryNext
               [] MODE = "conv"  -> ConvNext
               [] MODE = "tower" -> TowerNext

View == regs

Emit == EmitLine(ToJson([pre |-> regs, ev |-> ev', post |-> regs']))

----------------------------------------------------------------------------
(* field axioms on the oracle, evaluated in every state (= every operand tuple) *)
A1 == regs[1]
A2 == regs[NREG]
AxiomsOK ==
    /\ TypeOK
    /\ TAdd(F, K, A1, A2) = TAdd(F, K, A2, A1)
    /\ TMul(F, K, A1, A2) = TMul(F, K, A2, A1)
    /\ TSub(F, K, TAdd(F, K, A1, A2), A2) = A1
    /\ TAdd(F, K, A1, TNeg(F, K, A1)) = Zero
    /\ TMul(F, K, A1, One) = A1 /\ TAdd(F, K, A1, Zero) = A1
    /\ (A1 # Zero => TMul(F, K, A1, TInv(F, K, A1)) = One)
    /\ TIsElem(F, K, TMul(F, K, A1, A2)) /\ TIsElem(F, K, TInv(F, K, A1))
    \* distributivity and associativity with the derived third operand A1 + One
    /\ LET A3 == TAdd(F, K, A1, One) IN
         /\ TMul(F, K, A3, A2) = TAdd(F, K, TMul(F, K, A1, A2), A2)
         /\ TMul(F, K, TMul(F, K, A1, A2), A3) = TMul(F, K, A1, TMul(F, K, A2, A3))
    \* Frobenius (p-th power) is a ring homomorphism fixing the prime field, of order ext. degree
    /\ (Small \/ MODE = "unary") =>
       /\ TFrobRaw(F, K, A1, TExtDeg(F, K)) = A1
       /\ TFrob(F, K, TAdd(F, K, A1, A2), 1) = TAdd(F, K, TFrob(F, K, A1, 1), TFrob(F, K, A2, 1))
       /\ TFrob(F, K, TMul(F, K, A1, A2), 1) = TMul(F, K, TFrob(F, K, A1, 1), TFrob(F, K, A2, 1))
    \* Euler's criterion agrees with the existence of a root
    /\ (MODE = "unary" /\ Cfg.alpha = "all") => /\ (TIsSquare(F, K, A1) <=> \E y \in Elems : TSqr(F, K, y) = A1)
                         /\ (TIsSquareEuler(F, K, A1) <=> TIsSquare(F, K, A1))
    /\ Small => TMul(F, K, A1, A2) = TMulGenD(F, K, A1, A2)
    \* the norm is multiplicative and lands in the subfield (by construction), level K >= 1
    /\ K >= 1 => TNormDown(F, K, TMul(F, K, A1, A2)) = TMul(F, K-1, TNormDown(F, K, A1), TNormDown(F, K, A2))
=============================================================================
