CONSTANT MaxBig = 33
CONSTANT MaxDiv = 8
CONSTANT MaxPow = 4
INIT Init
NEXT Next
INVARIANT AllChecked
