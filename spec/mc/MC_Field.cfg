CONSTANT BIG = FALSE
CONSTANT F <- MCF
CONSTANT K <- MCK
CONSTANT NREG <- MCNREG
INIT MCInit
NEXT MCNext
VIEW View
ACTION_CONSTRAINT Emit
INVARIANT AxiomsOK
CHECK_DEADLOCK FALSE
