CONSTANT BIG = TRUE
INIT Init
NEXT Next
