------------------------------- MODULE MC_Msm -------------------------------
(***************************************************************************)
(* Toy model of MsmMachine over Z_r (r = order of the toy curve IOEnv.CFG).  *)
(*  MODE = "acc"  : ALL histories  New(kind, cap) ; Add^n ; Finalize  with   *)
(*                  n <= LEN, bases from {0 (identity), 1, 2, r-1} (so       *)
(*                  repeated and identity bases occur), scalars from         *)
(*                  {0, 1, r-1}, every capacity 0..LEN+1, both accumulator    *)
(*                  kinds.  Each behaviour is emitted at Finalize.           *)
(*  MODE = "oneshot": every (bases, scalars) vector pair of length <= 3 over *)
(*                  the same alphabets incl. mismatched lengths, and         *)
(*                  patterned vectors of length 31, 32, 33, 100 (the window  *)
(*                  size switches at 32), for every entry point.             *)
(***************************************************************************)
EXTENDS MsmMachine, Json, IOUtils, VerifIO

Cat  == JsonDeserialize("/verif/spec/toy/catalogue.json")
MCR  == Cat.curves[IOEnv.CFG].r
MODE == IOEnv.MODE
LEN  == atoi(IOEnv.LEN)

Bases   == {0, 1, 2, R - 1}
Scalars == {0, 1, R - 1}
Kinds   == {"checked", "unchecked", "bigint", "plain_buckets", "signed_buckets", "chunks"}
Vecs(S, n) == UNION {[1..k -> S] : k \in 0..n}
Pattern(len, a, b) == [i \in 1..len |-> (a * i + b) % R] \o <<>>

AccNext ==
    \/ \E kind \in {"chunked", "hashmap"}, cap \in 0..(LEN + 1) : New(kind, cap)
    \/ (Len(ops) < LEN /\ \E d \in Bases, k \in Scalars : Add(d, k))
    \/ Finalize
OneshotNext ==
    /\ ev.op = "init"
    /\ \/ \E kind \in Kinds, ds \in Vecs(Bases, 3), ks \in Vecs(Scalars, 3) : Msm(kind, ds \o <<>>, ks \o <<>>)
       \/ \E kind \in Kinds, len \in {31, 32, 33, 100}, a \in {0, 1, 3}, b \in {0, 1} :
            Msm(kind, Pattern(len, a, b), Pattern(len, 2, a + b)) \/ Msm(kind, Pattern(len, a, b), Pattern(len - 1, 1, 1))

MCNext == IF MODE = "acc" THEN AccNext ELSE OneshotNext
\* only finalize (complete behaviours) and one-shot calls are replayed
Emit == (ev'.op \in {"finalize", "msm"}) => EmitLine(ToJson([pre |-> <<>>, ev |-> ev', post |-> <<>>]))
Inv == Conservation /\ FinalizeReturnsHistory
=============================================================================
