CONSTANT BIG = FALSE
CONSTANT P <- MCP
CONSTANT NREG <- MCNREG
INIT MCInit
NEXT MCNext
VIEW View
ACTION_CONSTRAINT Emit
INVARIANT SpecOK
CHECK_DEADLOCK FALSE
