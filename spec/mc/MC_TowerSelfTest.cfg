CONSTANT BIG = FALSE
CONSTANT F <- MCF
CONSTANT K <- MCK
CONSTANT NREG <- MCNREG
INIT MCInit
NEXT STNext
VIEW View
INVARIANT SelfTestOK
CHECK_DEADLOCK FALSE
