CONSTANT BIG = FALSE
CONSTANT CurveC <- MCCurve
INIT Init
NEXT Next
ACTION_CONSTRAINT Emit
INVARIANT RoundTrip
CHECK_DEADLOCK FALSE
