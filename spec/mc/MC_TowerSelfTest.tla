--------------------------- MODULE MC_TowerSelfTest ---------------------------
(* Checks the Java accelerators of Tower (TAdd, TSub, TNeg, TMul, TInv, TNormDown, TPow)      *)
(* against the pure TLA+ definitions (suffix D) on every operand pair of a toy tower          *)
(* (IOEnv.CFG; MODE = "arith" gives pairs), and the written-out degree-2/3 products against   *)
(* the generic schoolbook convolution.                                                       *)
EXTENDS MC_Field

STNext == UNCHANGED <<regs, ev>>
Exps == {0, 1, 2, 5, F.p, F.p + 2}
SelfTestOK ==
    /\ TAdd(F, K, A1, A2) = TAddD(F, K, A1, A2)
    /\ TSub(F, K, A1, A2) = TSubD(F, K, A1, A2)
    /\ TNeg(F, K, A1) = TNegD(F, K, A1)
    /\ TMul(F, K, A1, A2) = TMulD(F, K, A1, A2)
    /\ TMulD(F, K, A1, A2) = TMulGenD(F, K, A1, A2)
    /\ TInv(F, K, A1) = TInvD(F, K, A1)
    /\ K >= 1 => TNormDown(F, K, A1) = TNormDownD(F, K, A1)
    /\ \A e \in Exps : TPow(F, K, A1, e) = TPowD(F, K, A1, e)
=============================================================================
