------------------------------- MODULE MC_Mle -------------------------------
(***************************************************************************)
(* Exhaustive toy models of MleMachine over F_p (IOEnv.CFG), NV variables.    *)
(*  MODE = "arith" : all ordered pairs of tables x add/sub/scaled add/eq/concat*)
(*  MODE = "unary" : every table x evaluate at EVERY point of F_p^NV,         *)
(*                   fix_variables for every partial assignment of every      *)
(*                   length 0..NV, every relabel window, neg, scale,          *)
(*                   index, to_evaluations, concat with itself                *)
(*  MODE = "mv"    : every term list of up to 2 terms over 2 variables with   *)
(*                   exponents <= 2 (duplicates, zero coefficients, unordered *)
(*                   variables) x every point: evaluate, add, sub, neg        *)
(* Invariant: the table IS the extension on the hypercube; fix/relabel agree  *)
(* with evaluation (theorems of the specification).                          *)
(***************************************************************************)
EXTENDS MleMachine, Json, IOUtils, VerifIO

Cat  == JsonDeserialize("/verif/spec/toy/catalogue.json")
MCP  == Cat.fields[IOEnv.CFG].p
MODE == IOEnv.MODE
NV   == atoi(IOEnv.NV)
MCNREG == IF MODE = "arith" THEN 2 ELSE 1

Fp == 0..(P - 1)
Tables(n) == {[n |-> n, t |-> t \o <<>>] : t \in [1..(2 ^ n) -> Fp]}
Points(n) == [1..n -> Fp]

MCInit == /\ regs \in [Reg -> (IF MODE = "mv" THEN {[n |-> 0, t |-> <<0>>]} ELSE Tables(NV))]
          /\ ev = [op |-> "init"]

ArithNext ==
    \/ \E op \in {"add", "sub"} : Bin(op, 1, 2)
    \/ \E f \in {0, 1, P - 1} : AddScaled(1, f, 2)
    \/ Query("eq", 1, 2, <<>>, 0)
    \/ Concat(1, <<1, 2>>) \/ Concat(1, <<1, 2, 1>>)
UnaryNext ==
    \/ Neg(1) \/ \E f \in {0, 1, 2 % P, P - 1} : Scale(1, f)
    \/ \E x \in Points(NV) : Query("evaluate", 1, 1, x \o <<>>, 0)
    \/ \E k \in 0..NV : \E x \in Points(k) : Fix(1, x \o <<>>)
    \/ \E a \in 0..NV, b \in 0..NV, k \in 0..NV : Relabel(1, a, b, k)
    \/ \E i \in 0..(2 ^ NV - 1) : Query("index", 1, 1, <<>>, i)
    \/ \E op \in {"to_evaluations", "num_vars"} : Query(op, 1, 1, <<>>, 0)
    \/ Concat(1, <<1>>) \/ Concat(1, <<1, 1>>) \/ Concat(1, <<1, 1, 1>>)
    \/ Bin("add", 1, 1) \/ Bin("sub", 1, 1)
Monos == {<<>>, <<<<0, 1>>>>, <<<<1, 1>>>>, <<<<0, 2>>>>, <<<<0, 1>>, <<1, 1>>>>, <<<<1, 1>>, <<0, 1>>>>, <<<<1, 2>>, <<0, 1>>>>}
Terms == {<<c, m>> : c \in {0, 1, P - 1}, m \in Monos}
TermLists == {<<>>} \cup {<<t>> : t \in Terms} \cup {<<t, u>> : t \in Terms, u \in Terms}
MvNext ==
    \/ \E t1 \in TermLists, x \in Points(2) : MvQuery("mv_evaluate", 2, t1, <<>>, x \o <<>>) \/ MvQuery("mv_neg", 2, t1, <<>>, x \o <<>>)
    \/ \E t1 \in {<<t>> : t \in Terms} \cup {<<>>}, t2 \in {<<t>> : t \in Terms} \cup {<<t, u>> : t \in {<<1, <<<<0, 1>>>>>>}, u \in Terms}, x \in {<<1, 2 % P>>, <<P - 1, 0>>, <<2 % P, 2 % P>>} :
          MvQuery("mv_add", 2, t1, t2, x) \/ MvQuery("mv_sub", 2, t1, t2, x)

MCNext == /\ ev.op = "init"
          /\ CASE MODE = "arith" -> ArithNext [] MODE = "unary" -> UnaryNext [] MODE = "mv" -> MvNext
View == regs
Emit == EmitLine(ToJson([pre |-> regs, ev |-> ev', post |-> regs']))

A1 == regs[1]
BoolPoint(b, n) == [i \in 1..n |-> Bit(b, i - 1)] \o <<>>
SpecOK ==
    /\ TypeOK
    /\ MODE = "unary" =>
         /\ \A b \in 0..(2 ^ A1.n - 1) : MEval(A1, BoolPoint(b, A1.n)) = A1.t[b + 1]
         /\ \A k \in 0..A1.n : \A x \in {[i \in 1..A1.n |-> (2 * i + 1) % P] \o <<>>} :
               MEval(MFix(A1, SubSeq(x, 1, k)), SubSeq(x, k + 1, A1.n)) = MEval(A1, x)
         /\ A1.n >= 2 => \A x \in {[i \in 1..A1.n |-> (i + 1) % P] \o <<>>} :
               MEval(MRelabel(A1, 0, A1.n - 1, 1), x) = MEval(A1, [i \in 1..A1.n |-> IF i = 1 THEN x[A1.n] ELSE IF i = A1.n THEN x[1] ELSE x[i]] \o <<>>)
=============================================================================
