---------------------------- MODULE MC_Container ----------------------------
(***************************************************************************)
(* Toy model for C18: a zoo of composite types (name -> type descriptor),    *)
(* for each of them every value built from tiny leaf domains up to length 2  *)
(* (encoding, advertised size) and a structured set of byte strings          *)
(* (all strings of length <= 2 over a byte alphabet; every length prefix in   *)
(* {0..4, 2^16, 2^40, 2^62, 2^64-1} followed by every payload of length <= 3  *)
(* over an alphabet containing ASCII, a valid two-byte UTF-8 sequence, a lone  *)
(* continuation byte and 0xFF): decoding outcome, value and bytes consumed.  *)
(* Invariant: Dec(Enc(v)) = v with n = Len(Enc(v)) for every value.          *)
(***************************************************************************)
EXTENDS ContainerCodec, Json, IOUtils, VerifIO, FiniteSets

I(w) == [k |-> "int", w |-> w]
Bo == [k |-> "bool"]
Op(t) == [k |-> "opt", t |-> t]
Ve(t) == [k |-> "vec", t |-> t]
Tu(ts) == [k |-> "tup", ts |-> ts]
Ar(t, n) == [k |-> "arr", t |-> t, n |-> n]
Pt(t) == [k |-> "ptr", t |-> t]
Pin(m, t) == [k |-> "pin", m |-> m, t |-> t]
Point == [k |-> "pt"]
Cat  == JsonDeserialize("/verif/spec/toy/catalogue.json")
CCv  == Cat.curves["sw13_1_0"]
MCCurve == [kind |-> "sw", F |-> [p |-> 13, lv |-> <<>>], K |-> 0, a |-> CCv.a, b |-> CCv.b, r |-> CCv.r, h |-> CCv.h]
Zoo == [u8 |-> I(1), u16 |-> I(2), u32 |-> I(4), u64 |-> I(8), i8 |-> I(1), i16 |-> I(2), i32 |-> I(4), i64 |-> I(8), usize |-> I(8),
        bool |-> Bo, opt_u8 |-> Op(I(1)), opt_bool |-> Op(Bo), opt_vec_u8 |-> Op(Ve(I(1))),
        vec_u8 |-> Ve(I(1)), vec_u16 |-> Ve(I(2)), vec_bool |-> Ve(Bo), vec_opt_u8 |-> Ve(Op(I(1))), vec_vec_u8 |-> Ve(Ve(I(1))),
        deque_u16 |-> Ve(I(2)), list_u8 |-> Ve(I(1)),
        tup_u8_bool |-> Tu(<<I(1), Bo>>), tup_u16_vec_u8 |-> Tu(<<I(2), Ve(I(1))>>), tup3 |-> Tu(<<Bo, I(1), Op(I(2))>>),
        arr2_u16 |-> Ar(I(2), 2), arr3_bool |-> Ar(Bo, 3),
        string |-> [k |-> "str"], biguint |-> [k |-> "big"],
        set_u8 |-> [k |-> "set", t |-> I(1)], map_u8_u16 |-> [k |-> "map", kt |-> I(1), vt |-> I(2)],
        rc_u16 |-> Pt(I(2)), arc_vec_u8 |-> Pt(Ve(I(1))), cow_u8 |-> Pt(I(1)), pinned_vec_u16 |-> Pt(Ve(I(2))),
        derive_named |-> Tu(<<I(1), Ve(I(2)), Bo>>), derive_tuple |-> Tu(<<I(2), Op(Bo)>>), derive_nested |-> Tu(<<Tu(<<I(1), Bo>>), I(2)>>),
        derive_generic_u8 |-> Tu(<<I(1), Ve(I(1))>>),
        point |-> Point, unc_checked_point |-> Pin("u", Point), cmp_checked_point |-> Pin("c", Point),
        vec_unc_checked_point |-> Ve(Pin("u", Point)), tup_point_cmp_point |-> Tu(<<Point, Pin("c", Point)>>),
        unc_checked_vec_u16 |-> Pin("u", Ve(I(2)))]
Names == DOMAIN Zoo

IntVals(w) == {[i \in 1..w |-> 0] \o <<>>, [i \in 1..w |-> IF i = 1 THEN 1 ELSE 0] \o <<>>, [i \in 1..w |-> 255] \o <<>>,
               [i \in 1..w |-> IF i = w THEN 128 ELSE 0] \o <<>>}
Deep == IOEnv.MODE = "deep"            \* thorough tier: sequences up to length 3, payloads up to 4 bytes
Seqs2(S) == {<<>>} \cup {<<a>> : a \in S} \cup {<<a, b>> : a \in S, b \in S}
            \cup (IF Deep /\ Cardinality(S) <= 6 THEN {<<a, b, c>> : a \in S, b \in S, c \in S} ELSE {})
RECURSIVE Vals(_)
Vals(T) ==
    CASE T.k = "int" -> IntVals(T.w)
      [] T.k = "bool" -> {TRUE, FALSE}
      [] T.k = "opt" -> {<<>>} \cup {<<v>> : v \in Vals(T.t)}
      [] T.k = "vec" -> Seqs2(Vals(T.t))
      [] T.k = "set" -> {SortDedup(s) : s \in Seqs2(Vals(T.t))}
      [] T.k = "map" -> {<<>>} \cup {<<<<a, v>>>> : a \in Vals(T.kt), v \in Vals(T.vt)}
                        \cup {m \in {<<<<a, v>>, <<b, w>>>> : a \in Vals(T.kt), b \in Vals(T.kt), v \in Vals(T.vt), w \in Vals(T.vt)} : LEVal(m[1][1]) < LEVal(m[2][1])}
      [] T.k = "tup" -> IF Len(T.ts) = 2 THEN {<<a, b>> : a \in Vals(T.ts[1]), b \in Vals(T.ts[2])}
                        ELSE {<<a, b, c>> : a \in Vals(T.ts[1]), b \in Vals(T.ts[2]), c \in Vals(T.ts[3])}
      [] T.k = "arr" -> IF T.n = 2 THEN {<<a, b>> : a \in Vals(T.t), b \in Vals(T.t)}
                        ELSE {<<a, b, c>> : a \in Vals(T.t), b \in Vals(T.t), c \in Vals(T.t)}
      [] T.k = "str" -> {<<>>, <<65>>, <<65, 66>>, <<195, 169>>, <<65, 195, 169, 66>>}
      [] T.k = "big" -> {<<0>>, <<1>>, <<255>>, <<0, 1>>, <<255, 255, 255, 255, 255, 255, 255, 255, 1>>}
      [] T.k = "ptr" -> Vals(T.t)
      [] T.k = "pin" -> Vals(T.t)
      [] T.k = "pt" -> {Q \in AllPoints(CurveC) : Q = Inf \/ Valid(CurveC, Q)}

Sigma == {0, 1, 2, 65, 128, 169, 195, 255}
TestPayloads == UNION {[1..n -> Sigma] : n \in 0..(IF Deep THEN 4 ELSE 3)}
LenPrefixes == {LenPrefix(n) : n \in 0..4} \cup {<<0, 0, 1, 0, 0, 0, 0, 0>>, <<0, 0, 0, 0, 0, 1, 0, 0>>, <<0, 0, 0, 0, 0, 0, 0, 64>>, <<255, 255, 255, 255, 255, 255, 255, 255>>}
HasPrefix(T) == T.k \in {"vec", "set", "map", "str", "big"} \/ (T.k \in {"ptr", "pin"} /\ T.t.k \in {"vec"})
Strings(T) == {p \o <<>> : p \in TestPayloads} \cup (IF HasPrefix(T) THEN {pre \o p : pre \in LenPrefixes, p \in TestPayloads} ELSE {})

VARIABLE ev
Init == ev = [op |-> "init"]
Next == /\ ev.op = "init"
        /\ \/ \E name \in Names, cm \in {"c", "u"} : \E v \in Vals(Zoo[name]) :
                ev' = [op |-> "enc", ty |-> name, cm |-> cm, v |-> v, ret |-> Enc(Zoo[name], v, cm), size |-> Size(Zoo[name], v, cm)]
           \/ \E name \in Names, cm \in {"c", "u"} : \E bs \in Strings(Zoo[name]) :
                LET r == Dec(Zoo[name], bs, cm) IN
                ev' = [op |-> "dec", ty |-> name, cm |-> cm, bytes |-> bs, ret |-> IF r.st = "err" THEN "err" ELSE [v |-> r.v, n |-> r.n]]
Emit == EmitLine(ToJson([pre |-> <<>>, ev |-> ev', post |-> <<>>]))
RoundTrip == ev.op = "init" => \A name \in Names : \A v \in Vals(Zoo[name]) :
                 \A cm \in {"c", "u"} : LET r == Dec(Zoo[name], Enc(Zoo[name], v, cm), cm) IN r.st = "ok" /\ r.v = v /\ r.n = Size(Zoo[name], v, cm)
=============================================================================
