------------------------------- MODULE MC_Ser -------------------------------
(***************************************************************************)
(* Exhaustive toy models of SerMachine (curve entry IOEnv.CFG).              *)
(*  MODE = "field" : every element of the base field x every flag kind:      *)
(*                   encoding and size; EVERY byte string of the encoded     *)
(*                   length (and one byte more / less): decoding outcome.    *)
(*  MODE = "point" : every point x compressed/uncompressed: encoding, size;  *)
(*                   EVERY byte string of the exact length, and truncations, *)
(*                   x compressed/uncompressed x validate yes/no.            *)
(* Invariants (theorems about the codec itself): Decode(Encode(v)) = v at    *)
(* the advertised size; for field elements Encode(Decode(b)) = b.            *)
(***************************************************************************)
EXTENDS SerMachine, Json, IOUtils, VerifIO, FiniteSets

Cat  == JsonDeserialize("/verif/spec/toy/catalogue.json")
CC   == Cat.curves[IOEnv.CFG]
FC   == Cat.fields[CC.field]
MCF  == [p |-> FC.p, lv |-> FC.lv]
MCC  == IF CC.kind = "sw"
        THEN [kind |-> "sw", F |-> MCF, K |-> Len(FC.lv), a |-> CC.a, b |-> CC.b, r |-> CC.r, h |-> CC.h]
        ELSE [kind |-> "te", F |-> MCF, K |-> Len(FC.lv), a |-> CC.a, d |-> CC.d, r |-> CC.r, h |-> CC.h]
MODE == IOEnv.MODE

Elems == TElems(C.F, C.K)
Pts == AllPoints(C)
Bytes(n) == [1..n -> 0..255]
Kinds == {"none", "sw", "te"}
MaskOf(kind) == CASE kind = "none" -> {0} [] kind = "sw" -> {0, 64, 128} [] kind = "te" -> {0, 128}

MCInit == buf = <<>> /\ ev = [op |-> "init"]

\* the point denoted by bs, by enumeration (toy): compressed encodings denote curve points,
\* uncompressed ones arbitrary coordinate pairs
Denoted(bs, compressed) ==
    IF ~compressed
    THEN LET rx == DecField(C.F, C.K, bs, "none")
             ry == DecField(C.F, C.K, SubSeq(bs, rx.n + 1, Len(bs)), IF C.kind = "sw" THEN "sw" ELSE "none")
         IN  IF ry.flag = "inf" THEN Inf ELSE <<rx.v, ry.v>>
    ELSE IF C.kind = "sw"
         THEN LET r == DecField(C.F, C.K, bs, "sw") IN
              IF r.flag = "inf" THEN Inf
              ELSE <<r.v, CHOOSE y \in Elems : PointMatches(C, bs, compressed, <<r.v, y>>)>>
         ELSE LET r == DecField(C.F, C.K, bs, "te") IN
              <<CHOOSE x \in Elems : PointMatches(C, bs, compressed, <<x, r.v>>), r.v>>

FieldNext ==
    \/ \E a \in Elems, kind \in Kinds : \E m \in MaskOf(kind) : SerField(a, kind, m)
    \/ \E kind \in Kinds : \E n \in {FieldSize(C.F, C.K, FlagBits(kind))} :
         \E len \in {n - 1, n, n + 1} : len >= 0 /\ len <= 2 /\ \E bs \in Bytes(len) : DeserField(bs, kind)
PointNext ==
    \/ \E P \in Pts, c \in BOOLEAN : SerPoint(P, c)
    \/ \E c \in BOOLEAN, v \in BOOLEAN : \E len \in 0..PointSize(C, c) : len <= 2 /\
         \E bs \in Bytes(len) :
            LET oc == DecPointOutcome(C, bs, c, v) IN
            IF oc = "err" THEN DeserPoint(bs, c, v, FALSE, Inf, Inf)
            ELSE LET Q == Denoted(bs, c) IN
                 IF v /\ Q # Inf /\ ~Valid(C, Q) THEN DeserPoint(bs, c, v, FALSE, Inf, Q)
                 ELSE DeserPoint(bs, c, v, TRUE, Q, Q)

MCNext == /\ ev.op = "init"
          /\ CASE MODE = "field" -> FieldNext [] MODE = "point" -> PointNext

View == <<>>
Emit == EmitLine(ToJson([pre |-> <<>>, ev |-> ev', post |-> <<>>]))

\* codec theorems, evaluated once (in the initial state)
CodecOK ==
    /\ MODE = "field" =>
         /\ \A a \in Elems, kind \in Kinds : \A m \in MaskOf(kind) :
              LET e == EncField(C.F, C.K, a, FlagBits(kind), m)  r == DecField(C.F, C.K, e, kind) IN
              /\ Len(e) = FieldSize(C.F, C.K, FlagBits(kind))
              /\ r.st = "ok" /\ r.v = a /\ r.n = Len(e)
         \* uniqueness: whatever decodes re-encodes to the same bytes
         /\ \A bs \in Bytes(FieldSize(C.F, C.K, 0)) :
              LET r == DecField(C.F, C.K, bs, "none") IN r.st = "ok" => EncField(C.F, C.K, r.v, 0, 0) = bs
    /\ MODE = "point" =>
         \A P \in Pts, c \in BOOLEAN :
            LET e == EncPoint(C, P, c) IN
            /\ Len(e) = PointSize(C, c)
            /\ DecPointOutcome(C, e, c, FALSE) # "err" /\ PointMatches(C, e, c, P)
=============================================================================
