CONSTANT MaxBig = 104
CONSTANT MaxDiv = 12
CONSTANT MaxPow = 4
INIT Init
NEXT Next
INVARIANT AllChecked
CHECK_DEADLOCK FALSE
