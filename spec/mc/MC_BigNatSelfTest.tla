--------------------------- MODULE MC_BigNatSelfTest ---------------------------
(* Checks every Java-overridden BigNat operator against its normative TLA+     *)
(* definition on a boundary set and pseudo-random operands.                    *)
EXTENDS BigNat, TLC, FiniteSets

CONSTANT MaxBig   \* largest operand size (bytes) for the cheap operators
CONSTANT MaxDiv   \* largest operand size for division
CONSTANT MaxPow   \* largest operand size for modpow / modinv / gcd

\* deterministic pseudo-random bytes (LCG modulo 2^16, well inside TLC's 32-bit ints)
RECURSIVE Lcg(_, _)
Lcg(s, n) == IF n = 0 THEN <<>> ELSE LET t == (s * 25173 + 13849) % 65536 IN <<t \div 256>> \o Lcg(t, n - 1)
Rnd(seed, n) == NormDef(Lcg(seed, n))
Ones(n)  == [i \in 1..n |-> 255]
PowB(n)  == [i \in 1..(n+1) |-> IF i = n + 1 THEN 1 ELSE 0]

Sizes == {1, 2, 7, 8, 9, 16, 31, 32, 33, 48, 64, 96, 104}
Vals(max) == {<<>>, <<1>>, <<2>>, <<255>>}
             \cup {Ones(n) : n \in {s \in Sizes : s <= max}}
             \cup {PowB(n) : n \in {s \in Sizes : s < max}}
             \cup {Rnd(n * 7 + 1, n) : n \in {s \in Sizes : s <= max}}
             \cup {Rnd(n * 13 + 5, n) : n \in {s \in Sizes : s <= max}}

ChkCheap(a, b) ==
    /\ BnAdd(a, b) = AddDef(a, b)
    /\ BnSub(a, b) = SubDef(a, b)
    /\ BnCmp(a, b) = CmpDef(a, b)
    /\ BnMul(a, b) = MulDef(a, b)
    /\ BnAnd(a, b) = AndDef(a, b) /\ BnOr(a, b) = OrDef(a, b) /\ BnXor(a, b) = XorDef(a, b)
    /\ BnBitLen(a) = BitLenDef(a)
    /\ BnNorm(a \o <<0, 0>>) = a /\ NormDef(a \o <<0, 0>>) = a
    /\ \A k \in {0, 1, 7, 8, 9, 63, 64, 65} :
          /\ BnShl(a, k) = ShlDef(a, k) /\ BnShr(a, k) = ShrDef(a, k)
          /\ BnBit(a, k) = BitDef(a, k)
    /\ BnToBytesLE(a, Len(a) + 2) = ToBytesLEDef(a, Len(a) + 2)
    /\ IsBigNat(BnAdd(a, b)) /\ IsBigNat(BnMul(a, b)) /\ IsBigNat(BnSub(a, b))
    \* algebra that ties the definitions together
    /\ SubDef(AddDef(a, b), b) = a
    /\ MulDef(a, b) = MulDef(b, a)

\* division is pinned down by its defining relation, evaluated with the pure TLA+
\* multiplication / addition / comparison; small operands are also compared with the
\* pure bit-by-bit long division
RelDivMod(a, b, q, r) == AddDef(MulDef(q, b), r) = a /\ CmpDef(r, b) < 0
ChkDiv(a, b) ==
    b # <<>> =>
      /\ RelDivMod(a, b, BnDiv(a, b), BnMod(a, b))
      /\ (Len(a) <= MaxDiv /\ Len(b) <= MaxDiv) =>
            /\ BnDiv(a, b) = DivDef(a, b) /\ BnMod(a, b) = ModDef(a, b)

\* checked modular exponentiation: square-and-multiply where every reduction is
\* re-validated through RelDivMod
CMod(x, m) == LET r == BnMod(x, m) IN IF RelDivMod(x, m, BnDiv(x, m), r) THEN r ELSE Assert(FALSE, "BnMod wrong")
RECURSIVE CPowAux(_, _, _, _, _)
CPowAux(a, e, m, i, acc) ==
    IF i < 0 THEN acc
    ELSE LET sq == CMod(MulDef(acc, acc), m)
         IN  CPowAux(a, e, m, i-1, IF BitDef(e, i) = 1 THEN CMod(MulDef(sq, a), m) ELSE sq)
CPow(a, e, m) == CPowAux(CMod(a, m), e, m, BitLenDef(e) - 1, CMod(<<1>>, m))

ChkPow(a, b) ==
    /\ (Len(a) <= MaxPow /\ Len(b) <= MaxPow) =>
          /\ BnGcd(a, b) = GcdDef(a, b)
          /\ b # <<>> => /\ BnModInv(a, b) = ModInvDef(a, b)
                         /\ \A e \in {<<>>, <<1>>, <<2>>, <<3, 1>>, a} : BnModPow(a, e, b) = ModPowDef(a, e, b)
    /\ (b # <<>> /\ Len(a) <= MaxDiv /\ Len(b) <= MaxDiv) =>
          /\ LET inv == BnModInv(a, b) IN
               /\ (inv # <<>> => CMod(MulDef(a, inv), b) = CMod(<<1>>, b) /\ CmpDef(inv, b) < 0)
               /\ (inv = <<>> => (b = <<1>> \/ BnGcd(a, b) # <<1>>))
          /\ LET g == BnGcd(a, b) IN g # <<>> /\ BnMod(a, g) = <<>> /\ BnMod(b, g) = <<>>
          /\ BnModPow(a, a, b) = CPow(a, a, b)

ChkDec(a) == /\ BnFromDecimal(BnToDecimal(a)) = a
             /\ Len(a) <= MaxDiv => /\ BnToDecimal(a) = ToDecimalDef(a)
                                     /\ FromDecimalDef(ToDecimalDef(a)) = a

ChkInt == \A n \in {0, 1, 255, 256, 65535, 65536, 2147483647} :
             /\ BnFromInt(n) = FromIntDef(n) /\ BnToInt(FromIntDef(n)) = n /\ ToIntDef(FromIntDef(n)) = n
             /\ (n < 1000 => BnPow2(n) = Pow2Def(n))

ASSUME ChkInt
VARIABLE t
V == Vals(MaxBig)
Init == t = <<"start">>
Next == \/ /\ t = <<"start">> /\ t' \in {<<"todo", a>> : a \in V}
        \/ /\ t[1] = "todo"
           /\ \A b \in V : ChkCheap(t[2], b) /\ ChkDiv(t[2], b) /\ ChkPow(t[2], b)
           /\ ChkDec(t[2])
           /\ t' = <<"ok", Len(t[2])>>
\* every operand must have been checked: a failed conjunct leaves a "todo" state without successor
AllChecked == t[1] = "todo" => ENABLED Next
=============================================================================
