------------------------------ MODULE MC_BigInt ------------------------------
(***************************************************************************)
(* Boundary-alphabet model of BigIntMachine at full limb width (BIG = TRUE). *)
(* Operands: for NL <= 2 every combination of limbs drawn from               *)
(*   S = {0, 1, 2, 2^31, 2^63-1, 2^63, 2^64-2, 2^64-1};                      *)
(* for larger NL every "one special limb" pattern (all other limbs 0 or all  *)
(* ones).  MODE = "arith": all ordered pairs x binary operations;            *)
(* MODE = "unary": every value x unary operations, shifts by                 *)
(* {0,1,63,64,65,64NL-1,64NL,64NL+1,..}, bit/byte conversions, recodings.    *)
(* Every explored transition is emitted and replayed on ark_ff::BigInt<NL>.  *)
(***************************************************************************)
EXTENDS BigIntMachine, Json, IOUtils, VerifIO, FiniteSets

MCNL   == atoi(IOEnv.NL)
MODE   == IOEnv.MODE
MCNREG == IF MODE = "arith" THEN 2 ELSE 1

P2(k) == NPow2(k)
Limb == {NZero, N(1), N(2), P2(31), NSub(P2(63), N(1)), P2(63), NSub(P2(64), N(2)), NSub(P2(64), N(1))}
AllOnes == NSub(P2(64), N(1))
\* value with limb sequence ls (least significant first)
FromLimbs(ls) == FoldLeft(LAMBDA acc, i : NAdd(NShl(acc, 64), ls[i]), NZero, DownTo(Len(ls), 1))
Alphabet ==
    IF NL <= 2 THEN {FromLimbs(ls) : ls \in [1..NL -> Limb]}
    ELSE {FromLimbs([i \in 1..NL |-> IF i = pos THEN x ELSE base]) : pos \in 1..NL, x \in Limb, base \in {NZero, AllOnes}}

MCInit == /\ regs \in [Reg -> Alphabet]
          /\ ev = [op |-> "init"]

ShiftAmts == {0, 1, 63, 64, 65, 127, 128, BITS - 1, BITS, BITS + 1, BITS + 64}
BitIdx    == {0, 1, 63, 64, BITS - 1, BITS, BITS + 5}

ArithNext ==
    \/ \E op \in {"add_with_carry", "sub_with_borrow", "mul", "mul_low", "mul_high", "and", "or", "xor"} : Bin(op, 1, 2)
    \/ \E op \in {"add_with_carry", "sub_with_borrow", "mul"} : Bin(op, 1, 1)
    \/ \E op \in {"cmp", "eq"} : Query(op, 1, 2, 0)

UnaryNext ==
    \/ \E op \in {"mul2", "div2", "not"} : Un(op, 1)
    \/ \E op \in {"muln", "shl", "divn", "shr"}, k \in ShiftAmts : Shift(op, 1, k)
    \/ \E op \in {"is_zero", "is_odd", "is_even", "num_bits", "to_bytes_le", "to_bytes_be", "to_bits_le", "to_bits_be",
                  "to_biguint", "to_decimal", "mod_4"} : Query(op, 1, 1, 0)
    \/ (NIsOdd(regs[1]) /\ regs[1] # NOne /\ Query("two_adic_valuation", 1, 1, 0))
    \/ \E i \in BitIdx : Query("get_bit", 1, 1, i)
    \/ \E w \in {0, 1, 2, 3, 4, 5, 8, 16, 20, 64} : Wnaf(1, w)
    \/ Naf(1)
    \/ \E be \in BOOLEAN : FromBits(1, be, BitsLE(regs[1], BITS))              \* round trip through bits
    \/ \E be \in BOOLEAN : FromBits(1, be, BitsLE(regs[1], BITS) \o <<1, 0, 1>>) \* longer than the width
    \/ \E be \in BOOLEAN : FromBits(1, be, SubSeq(BitsLE(regs[1], BITS), 1, 65 % BITS))
    \/ TryFrom(1, regs[1]) \/ TryFrom(1, NAdd(regs[1], W)) \/ TryFrom(1, W)
    \/ FromStr(1, BnToDecimal(regs[1])) \/ FromStr(1, <<0, 0>> \o BnToDecimal(regs[1]))
    \/ FromStr(1, BnToDecimal(NAdd(regs[1], W))) \/ FromStr(1, <<>>)
    \/ \E t \in {<<"u8", 255>>, <<"u16", 65535>>, <<"u32", 65536>>, <<"u64", 1>>} : FromSmall(1, t[1], N(t[2]))
    \/ FromSmall(1, "u64", NMod(regs[1], P2(64))) \/ FromSmall(1, "u32", NMod(regs[1], P2(32)))

MCNext == /\ ev.op = "init"
          /\ CASE MODE = "arith" -> ArithNext [] MODE = "unary" -> UnaryNext

View == regs
Emit == EmitLine(ToJson([pre |-> regs, ev |-> ev', post |-> regs']))

\* theorems about the specification's own definitions, checked in every explored state
A1 == regs[1]
SpecOK ==
    /\ TypeOK
    /\ WnafOK(WnafDef(A1, 2), A1, 2) /\ WnafOK(WnafDef(A1, 3), A1, 3) /\ WnafOK(WnafDef(A1, 5), A1, 5)
    /\ WnafOK(WnafDef(A1, 20), A1, 20)
    /\ RelaxedNafOK(RelaxedNafDef(A1), A1)
    /\ FromBitsLE(BitsLE(A1, BITS)) = A1
    /\ BnFromDecimal(BnToDecimal(A1)) = A1
=============================================================================
