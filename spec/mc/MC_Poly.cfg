CONSTANT BIG = FALSE
CONSTANT P <- MCP
CONSTANT FGEN <- MCGEN
CONSTANT TWOADIC <- MCTWO
CONSTANT SBASE <- MCSBASE
CONSTANT SPOW <- MCSPOW
CONSTANT NREG <- MCNREG
INIT MCInit
NEXT MCNext
VIEW View
ACTION_CONSTRAINT Emit
INVARIANT SpecOK
CHECK_DEADLOCK FALSE
