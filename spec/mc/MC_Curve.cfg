CONSTANT BIG = FALSE
CONSTANT C <- MCC
CONSTANT NREG <- MCNREG
INIT MCInit
NEXT MCNext
VIEW View
ACTION_CONSTRAINT Emit
INVARIANT CatalogueOK
INVARIANT GroupLawOK
CHECK_DEADLOCK FALSE
