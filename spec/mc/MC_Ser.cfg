CONSTANT BIG = FALSE
CONSTANT C <- MCC
INIT MCInit
NEXT MCNext
ACTION_CONSTRAINT Emit
INVARIANT CodecOK
CHECK_DEADLOCK FALSE
