CONSTANT BIG = TRUE
INIT Init
NEXT Next
ACTION_CONSTRAINT Emit
INVARIANT Sane
CHECK_DEADLOCK FALSE
