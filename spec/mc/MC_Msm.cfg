CONSTANT R <- MCR
INIT Init
NEXT MCNext
ACTION_CONSTRAINT Emit
INVARIANT Inv
CHECK_DEADLOCK FALSE
