------------------------------ MODULE MC_Literal ------------------------------
(***************************************************************************)
(* C20: what a literal denotes.  A literal is a character string             *)
(*     [-] [0x|0X|0o|0O|0b|0B] digits      (leading zeros allowed)           *)
(* denoting the integer written; MontFp!(lit) is that integer reduced        *)
(* modulo p (p - (|v| mod p) for negative literals, 0 stays 0); BigInt!(lit) *)
(* is the integer itself and must be non-negative and fit the limb count.    *)
(* For every modulus of the zoo (spec/toy/zoo.json, entry IOEnv.CFG) TLC     *)
(* generates the grid  sign x radix/prefix-case x leading zeros x value      *)
(* with values {0, 1, 2, 10, 15, 16, 255, 2^32, 2^64-1, 2^64, 2^64+1, p-1,   *)
(* p, p+1, 2p, 2p+1, 2^(64N)-1, (p-1)/2, ...} and emits, for each literal,   *)
(* its text and the value it must denote.  `check` compiles the literals     *)
(* into constants of the real macros and compares.                           *)
(* The same model states what the derive macro must compute for this         *)
(* modulus: limb count, modulus limbs, R, R2, INV, two-adicity, 2-adic root. *)
(***************************************************************************)
EXTENDS Num, TLC, Json, IOUtils, VerifIO, FiniteSets

ZooRaw == JsonDeserialize("/verif/spec/toy/zoo.json")
Entry == CHOOSE i \in 1..Len(ZooRaw) : ZooRaw[i].id = IOEnv.CFG
Z == ZooRaw[Entry]
\* decimal strings -> BigNat
DecStr(s) == BnFromDecimal([i \in 1..Len(s) |-> CHOOSE d \in 0..9 : SubSeq(s, i, i) = <<"0", "1", "2", "3", "4", "5", "6", "7", "8", "9">>[d + 1]] \o <<>>)
P == BnFromDecimal(Z.pdigits)
NL == Z.N
GEN == N(Z.gen)
W == NPow2(64 * NL)

HexDigits == <<"0", "1", "2", "3", "4", "5", "6", "7", "8", "9", "a", "b", "c", "d", "e", "f">>
HexUpper  == <<"0", "1", "2", "3", "4", "5", "6", "7", "8", "9", "A", "B", "C", "D", "E", "F">>
\* digits of v in radix 2^k, most significant first (at least one digit)
Pow2Digits(v, k, upper) ==
    LET nd == IF NIsZero(v) THEN 1 ELSE (NBitLen(v) + k - 1) \div k
        dig(i) == NToInt(NMod(NShr(v, k * i), N(2 ^ k)))
    IN  [j \in 1..nd |-> (IF upper THEN HexUpper ELSE HexDigits)[dig(nd - j) + 1]] \o <<>>
DecDigits(v) == IF NIsZero(v) THEN <<"0">> ELSE LET d == BnToDecimal(v) IN [i \in 1..Len(d) |-> HexDigits[d[i] + 1]] \o <<>>
Concat(ss) == FoldLeft(LAMBDA acc, i : acc \o ss[i], "", [j \in 1..Len(ss) |-> j] \o <<>>)

\* the text of a literal
Text(neg, style, zeros, v) ==
    LET prefix == CASE style = "dec" -> "" [] style = "hex" -> "0x" [] style = "HEX" -> "0X" [] style = "oct" -> "0o" [] style = "OCT" -> "0O"
                    [] style = "bin" -> "0b" [] style = "BIN" -> "0B"
        digits == CASE style = "dec" -> DecDigits(v) [] style = "hex" -> Pow2Digits(v, 4, FALSE) [] style = "HEX" -> Pow2Digits(v, 4, TRUE)
                    [] style \in {"oct", "OCT"} -> Pow2Digits(v, 3, FALSE) [] style \in {"bin", "BIN"} -> Pow2Digits(v, 1, FALSE)
    IN  (IF neg THEN "-" ELSE "") \o prefix \o Concat([i \in 1..zeros |-> "0"] \o <<>>) \o Concat(digits)

\* what the field literal denotes
Denotes(neg, v) == LET m == NMod(v, P) IN IF neg /\ ~NIsZero(m) THEN NSub(P, m) ELSE m

Values == LET cand == {NZero, N(1), N(2), N(10), N(15), N(16), N(255), NPow2(32), NSub(NPow2(64), N(1)), NPow2(64), NAdd(NPow2(64), N(1)),
                       NSub(P, N(1)), P, NAdd(P, N(1)), NAdd(P, P), NAdd(NAdd(P, P), N(1)), NSub(W, N(1)), NHalf(NSub(P, N(1))),
                       NSub(P, N(2)), NMod(NPow2(64 * NL - 1), W), NDiv(W, N(3))}
          IN  {v \in cand : NLt(v, W)}
Styles == {"dec", "hex", "HEX", "oct", "OCT", "bin", "BIN"}

VARIABLE ev
Init == ev = [op |-> "init"]
Next == /\ ev.op = "init"
        /\ \/ \E neg \in BOOLEAN, style \in Styles, zeros \in {0, 2}, v \in Values :
                ev' = [op |-> "montfp", lit |-> Text(neg, style, zeros, v), ret |-> Denotes(neg, v)]
           \/ \E style \in Styles, zeros \in {0, 1}, v \in Values :
                ev' = [op |-> "bigint", lit |-> Text(FALSE, style, zeros, v), ret |-> v]
           \/ ev' = [op |-> "derive", ret |->
                       [nlimbs |-> (NBitLen(P) + 63) \div 64, modulus |-> P, bits |-> NBitLen(P),
                        r |-> NMod(W, P), r2 |-> NMod(NMul(W, W), P),
                        inv |-> NSub(NPow2(64), NModInv(NMod(P, NPow2(64)), NPow2(64))),      \* -p^-1 mod 2^64
                        two_adicity |-> CHOOSE s \in 0..(64 * NL) : NBit(NSub(P, N(1)), s) = 1 /\ \A u \in 0..(s - 1) : NBit(NSub(P, N(1)), u) = 0,
                        generator |-> GEN,
                        two_adic_root |-> LET s == CHOOSE s \in 0..(64 * NL) : NBit(NSub(P, N(1)), s) = 1 /\ \A u \in 0..(s - 1) : NBit(NSub(P, N(1)), u) = 0
                                          IN  NModPow(GEN, NShr(NSub(P, N(1)), s), P),
                        has_spare_bit |-> NBitLen(P) < 64 * NL]]
Emit == EmitLine(ToJson([pre |-> <<>>, ev |-> ev', post |-> <<>>]))
\* sanity of the generator: distinct literals that must denote the same element exist, and p denotes 0
Sane == Denotes(FALSE, P) = NZero /\ Denotes(TRUE, N(1)) = NSub(P, N(1)) /\ Denotes(TRUE, NZero) = NZero
=============================================================================
