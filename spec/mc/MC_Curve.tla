------------------------------ MODULE MC_Curve ------------------------------
(***************************************************************************)
(* Exhaustive toy model of CurveMachine: the curve is entry IOEnv.CFG of     *)
(* the catalogue; ALL points of the curve are enumerated by brute force      *)
(* (for an incomplete twisted Edwards curve: all points of the prime-order   *)
(* subgroup), every ordered pair is an initial state (MODE = "arith") and    *)
(* every transition is emitted for replay on the real generic group code.    *)
(* Invariants: the catalogue entry is right (#E = h r, generator of order r) *)
(* and the affine law IS a group law (closure, associativity, identity,      *)
(* inverse, commutativity) - i.e. the oracle is checked before it is used.   *)
(***************************************************************************)
EXTENDS CurveMachine, Json, IOUtils, VerifIO, FiniteSets

Cat  == JsonDeserialize("/verif/spec/toy/catalogue.json")
CC   == Cat.curves[IOEnv.CFG]
FC   == Cat.fields[CC.field]
MCF  == [p |-> FC.p, lv |-> FC.lv]
MCC  == IF CC.kind = "sw"
        THEN [kind |-> "sw", F |-> MCF, K |-> Len(FC.lv), a |-> CC.a, b |-> CC.b, r |-> CC.r, h |-> CC.h]
        ELSE [kind |-> "te", F |-> MCF, K |-> Len(FC.lv), a |-> CC.a, d |-> CC.d, r |-> CC.r, h |-> CC.h]
MODE == IOEnv.MODE
MCNREG == IF MODE = "arith" THEN 2 ELSE 1

Pts == AllPoints(C)
Complete == C.kind = "sw" \/ CC.complete
\* operand alphabet: the whole curve, or the prime-order subgroup for an incomplete Edwards curve
Alpha == IF Complete THEN Pts ELSE {P \in Pts : \A Q \in {Id} : TRUE /\ PMul(C, C.r, P) = Id}
G == CC.gen

MCInit == /\ regs \in [Reg -> Alpha]
          /\ ev = [op |-> "init"]

Scalars == 0..(2 * C.r + 2)
Algs == {"mul_bigint", "mul_bits_be", "affine_mul_bigint", "scalar", "wnaf2", "wnaf3", "wnaf4", "wnaf5", "wnaf_table3", "wnaf_table4", "glv", "batch"}

ArithNext ==
    \/ Add(1, 2) \/ Sub(1, 2) \/ Add(2, 1)
    \/ Query("eq", 1, 2)
    \/ Sum(1, <<1, 2, 2, 1>>) \/ Sum(1, <<>>) \/ Sum(2, <<2>>)
    \/ Repr("normalize_batch", <<1, 2>>) \/ Repr("normalize_batch", <<>>) \/ Repr("normalize_batch", <<2, 2, 1>>)
\* single-register actions, split by the property they serve
GroupNext ==                                   \* C03
    \/ Add(1, 1) \/ Sub(1, 1) \/ Dbl(1) \/ Neg(1)
    \/ \E op \in {"is_zero", "on_curve"} : Query(op, 1, 1)
    \/ Repr("affine_roundtrip", <<1>>) \/ Repr("normalize_batch", <<1>>)
MulNext == \E k \in Scalars : Mul(1, k, "all")  \* C04
SubgroupNext ==                                \* C12
    \/ Query("in_subgroup", 1, 1) \/ Query("on_curve", 1, 1)
    \/ ClearCofactor(1, C.h) \/ MulByCofactor(1) \/ MulByCofactorInv(1)
UnaryNext == GroupNext \/ MulNext \/ SubgroupNext

MCNext == /\ ev.op = "init"
          /\ CASE MODE = "arith" -> ArithNext [] MODE = "unary" -> UnaryNext
               [] MODE = "group" -> GroupNext [] MODE = "mul" -> MulNext [] MODE = "subgroup" -> SubgroupNext

View == regs
Emit == EmitLine(ToJson([pre |-> regs, ev |-> ev', post |-> regs']))

----------------------------------------------------------------------------
A1 == regs[1]
A2 == regs[NREG]
\* catalogue entry re-derived by brute force (evaluated once per state; cheap at toy size)
CatalogueOK ==
    /\ Cardinality(Pts) + (IF Complete \/ C.kind = "sw" THEN 0 ELSE CC.order - Cardinality(Pts)) = CC.order
    /\ Complete => Cardinality(Pts) = C.h * C.r
    /\ OnCurve(C, G) /\ G # Id /\ PMul(C, C.r, G) = Id
    /\ NGcd(C.h % C.r, C.r) = 1 /\ (CC.cofactor_inv * C.h) % C.r = 1
\* the affine law is a group law on the operand alphabet
GroupLawOK ==
    /\ TypeOK
    /\ OnCurve(C, PAdd(C, A1, A2))
    /\ PAdd(C, A1, A2) = PAdd(C, A2, A1)
    /\ PAdd(C, A1, Id) = A1
    /\ PAdd(C, A1, PNeg(C, A1)) = Id
    /\ PAdd(C, PAdd(C, A1, A2), G) = PAdd(C, A1, PAdd(C, A2, G))
    /\ PAdd(C, PAdd(C, A1, A2), A1) = PAdd(C, A1, PAdd(C, A2, A1))
    /\ PMul(C, C.h * C.r, A1) = Id
    /\ PMul(C, 5, A1) = PAdd(C, PAdd(C, PAdd(C, PAdd(C, A1, A1), A1), A1), A1)
    /\ InSub(PMul(C, C.h, A1))
=============================================================================
