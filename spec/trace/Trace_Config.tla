----------------------------- MODULE Trace_Config -----------------------------
(***************************************************************************)
(* C16: every declared or derived constant of a shipped configuration,       *)
(* read through the public traits of the real code, is checked against its   *)
(* DEFINING EQUATION, evaluated by the specification's own arithmetic         *)
(* (BigNat / Tower / Curve / H2C).  One event per configuration item:         *)
(*   fp    - a Montgomery prime field configuration                           *)
(*   ext   - one extension level with its Frobenius tables                    *)
(*   curve - curve coefficients, generator, subgroup order, cofactor          *)
(*   glv   - endomorphism, eigenvalue and decomposition lattice               *)
(*   wb    - SWU parameters and the isogeny of a Wahby-Boneh configuration    *)
(*   bls12 / bn - the polynomial parametrisation of a pairing family          *)
(***************************************************************************)
EXTENDS H2C, Json, IOUtils, TLC

Rec == ndJsonDeserialize(IOEnv.TRACE)
Has(e, f) == f \in DOMAIN e

----------------------------------------------------------------------------
(* integers *)
RECURSIVE V2(_)
V2(n) == IF NIsOdd(n) THEN 0 ELSE 1 + V2(NHalf(n))           \* 2-adic valuation, n > 0
NPowI(b, k) == FoldLeft(LAMBDA acc, i : NMul(acc, b), NOne, UpTo(1, k))
\* Miller-Rabin with the first twelve primes as bases (a proof of compositeness when FALSE; deterministic
\* for n < 3.3 * 10^24 and a probable-prime test beyond)
MRBases == <<2, 3, 5, 7, 11, 13, 17, 19, 23, 29, 31, 37>>
MRWitnessOK(n, s, d, a) ==
    LET x == NModPow(NMod(N(a), n), d, n)
        nm1 == NSub(n, NOne)
        sq == FoldLeft(LAMBDA acc, i : IF acc[2] THEN acc
                                       ELSE LET y == NMod(NMul(acc[1], acc[1]), n) IN <<y, y = nm1>>,
                       <<x, x = nm1>>, UpTo(1, s - 1))
    IN  NIsZero(NMod(N(a), n)) \/ x = NOne \/ sq[2]
IsProbablePrime(n) ==
    IF NLt(n, N(2)) THEN FALSE
    ELSE IF n = N(2) THEN TRUE
    ELSE IF ~NIsOdd(n) THEN FALSE
    ELSE LET nm1 == NSub(n, NOne)  s == V2(nm1)  d == NShr(nm1, s) IN
         \A j \in 1..Len(MRBases) : MRWitnessOK(n, s, d, MRBases[j])
\* signed integers as <<positive?, magnitude>>
SMul(x, y) == <<x[1] = y[1], NMul(x[2], y[2])>>
SAdd(x, y) == IF x[1] = y[1] THEN <<x[1], NAdd(x[2], y[2])>>
              ELSE IF NLe(y[2], x[2]) THEN <<x[1], NSub(x[2], y[2])>> ELSE <<y[1], NSub(y[2], x[2])>>
SNeg(x) == <<~x[1], x[2]>>
SModR(x, r) == LET m == NMod(x[2], r) IN IF x[1] \/ NIsZero(m) THEN m ELSE NSub(r, m)
SEq(x, y) == x[2] = y[2] /\ (NIsZero(x[2]) \/ x[1] = y[1])

----------------------------------------------------------------------------
(* Every check is a sequence of <<name, holds?>> pairs, so that a rejected event names the equations that fail. *)
(* fp: Montgomery constants, 2-adic structure, generator, roots of unity *)
FpChecks(e) ==
    LET p == e.p  pm1 == NSub(p, NOne)  s == V2(pm1)  t == NShr(pm1, s)
        W == 64 * e.nlimbs
        R == NMod(NPow2(W), p)
        sm == Has(e, "small_base")
        b == IF sm THEN N(e.small_base) ELSE NOne
        ord == IF sm THEN NMul(NPow2(s), NPowI(b, e.small_adicity)) ELSE NPow2(s)
    IN  << <<"modulus is prime", IsProbablePrime(p)>>,
           <<"MODULUS_BIT_SIZE", e.bits = NBitLen(p) /\ NBitLen(p) <= W>>,
           <<"MODULUS_HAS_SPARE_BIT", e.has_spare_bit = (NBitLen(p) < W)>>,
           <<"R = 2^(64N) mod p", e.r = R>>,
           <<"R2 = R^2 mod p", e.r2 = NMod(NMul(R, R), p)>>,
           <<"INV = -p^-1 mod 2^64", NLt(e.inv, NPow2(64)) /\ NIsZero(NMod(NAdd(NMul(p, e.inv), NOne), NPow2(64)))>>,
           <<"TWO_ADICITY", e.two_adicity = s>>,
           <<"TRACE", e.trace = t>>,
           <<"TRACE_MINUS_ONE_DIV_TWO", e.trace_minus_one_div_two = NHalf(NSub(t, NOne))>>,
           <<"MODULUS_MINUS_ONE_DIV_TWO", e.modulus_minus_one_div_two = NHalf(pm1)>>,
           <<"GENERATOR is a quadratic non-residue", NLt(e.gen, p) /\ FpLegendre(p, e.gen) = -1>>,
           <<"TWO_ADIC_ROOT_OF_UNITY = g^t", e.two_adic_root = FpPow(p, e.gen, t)>>,
           <<"TWO_ADIC_ROOT_OF_UNITY has order exactly 2^s",
             FpPow(p, e.two_adic_root, NPow2(s)) = NOne /\ (s > 0 => FpPow(p, e.two_adic_root, NPow2(s - 1)) # NOne)>>,
           <<"small subgroup: 2^s b^k divides p - 1", sm => e.small_base > 1 /\ NIsZero(NMod(pm1, ord))>>,
           <<"LARGE_SUBGROUP_ROOT_OF_UNITY = g^((p-1)/(2^s b^k))", sm => e.large_root = FpPow(p, e.gen, NDiv(pm1, ord))>>,
           <<"LARGE_SUBGROUP_ROOT_OF_UNITY has order exactly 2^s b^k",
             sm => /\ FpPow(p, e.large_root, ord) = NOne
                   /\ (s > 0 => FpPow(p, e.large_root, NHalf(ord)) # NOne)
                   /\ (e.small_adicity > 0 => FpPow(p, e.large_root, NDiv(ord, b)) # NOne)>>,
           <<"declared modulus / generator / small subgroup (source attributes)",
             Has(e, "decl") =>
               /\ e.decl.modulus = p /\ NMod(e.decl.generator, p) = e.gen
               /\ (Has(e.decl, "small_base") <=> sm)
               /\ (Has(e.decl, "small_base") => e.decl.small_base = e.small_base /\ e.decl.small_adicity = e.small_adicity)>> >>

----------------------------------------------------------------------------
(* ext: irreducibility of X^d - nr at every level, and the Frobenius tables of the top level *)
TF(e) == [p |-> e.p, lv |-> e.lv]
NonResidue(F, k) ==
    LET nr == NR(F, k)  d == Deg(F, k)  q == TOrder(F, k - 1) IN
    /\ TIsElem(F, k - 1, nr)
    /\ IF d = 2 THEN ~TIsSquare(F, k - 1, nr)
       ELSE /\ NIsZero(NMod(NSub(q, NOne), N(3)))
            /\ TPow(F, k - 1, nr, NDiv(NSub(q, NOne), N(3))) # TOne(F, k - 1)
\* the adjoined root of the top level: (0, 1) or (0, 1, 0)
TopGen(F, k) == IF Deg(F, k) = 2 THEN <<TZero(F, k-1), TOne(F, k-1)>> ELSE <<TZero(F, k-1), TOne(F, k-1), TZero(F, k-1)>>
\* x, x^p, x^(p^2), ..., x^(p^(n-1))
FrobOrbit(F, k, x, n) == FoldLeft(LAMBDA acc, i : Append(acc, TPow(F, k, acc[Len(acc)], F.p)), <<x>>, UpTo(2, n))
\* level the table entries live in
CoeffLevel(kind) == IF kind \in {"fp6_3over2", "fp12"} THEN 1 ELSE 0
ExtChecks(e) ==
    LET F == TF(e)  K == Len(e.lv)  n == TExtDeg(F, K)
        g == TopGen(F, K)  g2 == TMul(F, K, g, g)
        j == CoeffLevel(e.kind)
        og == FrobOrbit(F, K, g, n)  og2 == FrobOrbit(F, K, g2, n)
        cubic == Deg(F, K) = 3
        ts == Has(e, "qnr_to_t")
        qm1 == NSub(TOrder(F, K), NOne)  s == V2(qm1)  t == NShr(qm1, s)
    IN  << <<"characteristic is prime", IsProbablePrime(e.p)>>,
           <<"X^d - NONRESIDUE is irreducible at every level", \A k \in 1..K : NonResidue(F, k)>>,
           \* g^(p^i) = C1[i] * g      (i = 0 .. n-1)
           <<"FROBENIUS_COEFF_C1[i] = g^(p^i) / g",
             Len(e.c1) = n /\ \A i \in 1..n : TIsElem(F, j, e.c1[i]) /\ og[i] = TMulLevel(F, K, g, j, e.c1[i])>>,
           \* cubic top level: (g^2)^(p^i) = C2[i] * g^2
           <<"FROBENIUS_COEFF_C2[i] = (g^2)^(p^i) / g^2",
             IF cubic THEN Has(e, "c2") /\ Len(e.c2) = n /\ \A i \in 1..n : TIsElem(F, j, e.c2[i]) /\ og2[i] = TMulLevel(F, K, g2, j, e.c2[i])
             ELSE ~Has(e, "c2")>>,
           \* Tonelli-Shanks constants of a cubic extension of the prime field
           <<"TWO_ADICITY / TRACE_MINUS_ONE_DIV_TWO of p^3 - 1", ts => e.two_adicity = s /\ e.trace_minus_one_div_two = NHalf(NSub(t, NOne))>>,
           <<"QUADRATIC_NONRESIDUE_TO_T has order exactly 2^s",
             ts => /\ TIsElem(F, K, e.qnr_to_t)
                   /\ TPow(F, K, e.qnr_to_t, NPow2(s)) = TOne(F, K)
                   /\ TPow(F, K, e.qnr_to_t, NPow2(s - 1)) # TOne(F, K)>> >>

----------------------------------------------------------------------------
(* curve *)
TC(e) == IF e.kind = "sw" THEN [kind |-> "sw", F |-> TF(e), K |-> Len(e.lv), a |-> e.a, b |-> e.b, r |-> e.r, h |-> e.h]
         ELSE [kind |-> "te", F |-> TF(e), K |-> Len(e.lv), a |-> e.a, d |-> e.d, r |-> e.r, h |-> e.h]
\* the twisted Edwards addition law is complete iff a is a square and d is not
Complete(C) == C.kind = "sw" \/ (TIsSquare(C.F, C.K, C.a) /\ ~TIsSquare(C.F, C.K, C.d))
NonSingular(C) ==
    IF C.kind = "sw"
    THEN \* 4 a^3 + 27 b^2 # 0
         FAdd(C, FMul(C, FInt(C, 4), FMul(C, C.a, FMul(C, C.a, C.a))), FMul(C, FInt(C, 27), FMul(C, C.b, C.b))) # FZero(C)
    ELSE C.a # FZero(C) /\ C.d # FZero(C) /\ C.a # C.d
CurveChecks(e) ==
    LET C == TC(e)
        q == TOrder(C.F, C.K)  hr == NMul(e.h, e.r)  q1 == NAdd(q, NOne)
        dlt == IF NLe(q1, hr) THEN NSub(hr, q1) ELSE NSub(q1, hr)
    IN  << <<"subgroup order r is prime", IsProbablePrime(e.r)>>,
           <<"curve is non-singular", NonSingular(C)>>,
           <<"GENERATOR is a point of the curve other than the identity", e.gen # Identity(C) /\ OnCurve(C, e.gen)>>,
           <<"r * GENERATOR = O", PMul(C, e.r, e.gen) = Identity(C)>>,
           <<"COFACTOR_INV * COFACTOR = 1 mod r", NLt(e.cofactor_inv, e.r) /\ NMod(NMul(NMod(e.h, e.r), e.cofactor_inv), e.r) = NMod(NOne, e.r)>>,
           \* the group order divides h * r: sampled curve points are annihilated by it
           <<"h * r annihilates sampled points of the curve",
             \A i \in 1..Len(e.pts) : OnCurve(C, e.pts[i]) /\ (Complete(C) => PMul(C, hr, e.pts[i]) = Identity(C))>>,
           \* Hasse: |h r - (q + 1)| <= 2 sqrt(q), as (h r - q - 1)^2 <= 4 q
           <<"h * r lies in the Hasse interval", NLe(NMul(dlt, dlt), NMul(N(4), q))>> >>

----------------------------------------------------------------------------
(* glv: phi(P) = lambda P on the subgroup, lattice rows (n_i1, n_i2) with n_i1 + n_i2 lambda = 0 mod r, det = r *)
Sg(c) == <<c.pos, c.v>>
GlvChecks(e) ==
    LET C == TC(e)
        n11 == Sg(e.decomp[1])  n12 == Sg(e.decomp[2])  n21 == Sg(e.decomp[3])  n22 == Sg(e.decomp[4])
        lam == <<TRUE, e.lambda>>
    IN  << <<"LAMBDA is a non-trivial residue", NLt(e.lambda, e.r) /\ ~NIsZero(e.lambda) /\ e.lambda # NOne>>,
           <<"endomorphism(G) = LAMBDA * G", OnCurve(C, e.phi_gen) /\ e.phi_gen = PMul(C, e.lambda, e.gen)>>,
           <<"endomorphism(P) = LAMBDA * P on sampled subgroup points",
             \A i \in 1..Len(e.pts) : LET P == e.pts[i][1]  Q == e.pts[i][2] IN
                 OnCurve(C, P) /\ PMul(C, e.r, P) = Identity(C) /\ Q = PMul(C, e.lambda, P)>>,
           <<"SCALAR_DECOMP_COEFFS rows lie in the lattice {(a, b) : a + b LAMBDA = 0 mod r}",
             NIsZero(SModR(SAdd(n11, SMul(n12, lam)), e.r)) /\ NIsZero(SModR(SAdd(n21, SMul(n22, lam)), e.r))>>,
           <<"det SCALAR_DECOMP_COEFFS = r", SEq(SAdd(SMul(n11, n22), SNeg(SMul(n12, n21))), <<TRUE, e.r>>)>>,
           <<"SCALAR_DECOMP_COEFFS is a short basis", \A i \in 1..4 : 2 * NBitLen(e.decomp[i].v) <= NBitLen(e.r) + 4>> >>

----------------------------------------------------------------------------
(* wb: simplified SWU on the isogenous curve E', isogeny E' -> E *)
WbChecks(e) ==
    LET F == TF(e)  K == Len(e.lv)
        CE == [kind |-> "sw", F |-> F, K |-> K, a |-> e.a, b |-> e.b, r |-> e.r, h |-> e.h]
        CI == [kind |-> "sw", F |-> F, K |-> K, a |-> e.iso_a, b |-> e.iso_b, r |-> e.r, h |-> e.h]
        img(P) == IsoApply(CE, e.iso, P)
    IN  << <<"SWU: A' B' # 0 and E' non-singular", e.iso_a # FZero(CI) /\ e.iso_b # FZero(CI) /\ NonSingular(CI)>>,
           <<"SWU: ZETA is a non-square", ~TIsSquare(F, K, e.zeta)>>,
           <<"ISOGENY_MAP sends E' to E", \A i \in 1..Len(e.pts) : OnCurve(CI, e.pts[i]) /\ OnCurve(CE, img(e.pts[i]))>>,
           <<"ISOGENY_MAP is a group homomorphism",
             \A i \in 1..Len(e.pts) : /\ img(SWDbl(CI, e.pts[i])) = SWDbl(CE, img(e.pts[i]))
                                      /\ \A k \in 1..Len(e.pts) : img(SWAdd(CI, e.pts[i], e.pts[k])) = SWAdd(CE, img(e.pts[i]), img(e.pts[k]))>>,
           <<"generator of E' has order r", e.iso_gen # Inf /\ OnCurve(CI, e.iso_gen) /\ PMul(CI, e.r, e.iso_gen) = Inf>> >>

----------------------------------------------------------------------------
(* pairing families: the moduli are the family polynomials at the declared seed x (signed) *)
SInt(n) == IF n >= 0 THEN <<TRUE, N(n)>> ELSE <<FALSE, N(0 - n)>>
\* sum c_i x^i (c_i TLC integers, constant term first) at the signed x
SPolyEval(cs, x) == FoldLeft(LAMBDA acc, i : SAdd(SMul(acc, x), SInt(cs[i])), SInt(0), DownTo(Len(cs), 1))
\* value of a signed-digit string, least significant digit first
SDigits(ds) == FoldLeft(LAMBDA acc, i : SAdd(SAdd(acc, acc), SInt(ds[i])), SInt(0), DownTo(Len(ds), 1))
Bls12Checks(e) ==
    LET x == <<e.x_pos, e.x>>
        rr == SPolyEval(<<1, 0, -1, 0, 1>>, x)                        \* r = x^4 - x^2 + 1
        xm1 == SAdd(x, SInt(-1))
    IN  << <<"r = x^4 - x^2 + 1", SEq(rr, <<TRUE, e.r>>)>>,
           <<"3 (p - x) = (x - 1)^2 r", SEq(SAdd(SMul(SInt(3), <<TRUE, e.p>>), SNeg(SMul(SInt(3), x))), SMul(SMul(xm1, xm1), rr))>> >>
BnChecks(e) ==
    LET x == <<e.x_pos, e.x>>  F == TF(e)  xi == e.lv[2].nr  pm1 == NSub(e.p, NOne) IN
    << <<"p = 36x^4 + 36x^3 + 24x^2 + 6x + 1", SEq(SPolyEval(<<1, 6, 24, 36, 36>>, x), <<TRUE, e.p>>)>>,
       <<"r = 36x^4 + 36x^3 + 18x^2 + 6x + 1", SEq(SPolyEval(<<1, 6, 18, 36, 36>>, x), <<TRUE, e.r>>)>>,
       <<"ATE_LOOP_COUNT = signed digits of |6x + 2|", SDigits(e.ate) = <<TRUE, SAdd(SMul(SInt(6), x), SInt(2))[2]>> >>,
       <<"TWIST_MUL_BY_Q_X = xi^((p-1)/3) (D-twist; inverse for M)",
         e.twist_mul_by_q_x = IF e.twist = "D" THEN TPow(F, 1, xi, NDiv(pm1, N(3))) ELSE TInv(F, 1, TPow(F, 1, xi, NDiv(pm1, N(3))))>>,
       <<"TWIST_MUL_BY_Q_Y = xi^((p-1)/2) (D-twist; inverse for M)",
         e.twist_mul_by_q_y = IF e.twist = "D" THEN TPow(F, 1, xi, NDiv(pm1, N(2))) ELSE TInv(F, 1, TPow(F, 1, xi, NDiv(pm1, N(2))))>> >>

\* twist of G1: y^2 = x^3 + a x + b  by the element tw of the level-k field:  a' = a tw^2 (D) ..., sextic for a = 0
SexticTwistB(F, b, xi, twist) == IF twist = "M" THEN TMulPrime(F, 1, xi, b) ELSE TMulPrime(F, 1, TInv(F, 1, xi), b)
TwistChecks(e) ==       \* BLS12 / BN: E' : y^2 = x^3 + b xi (M) or b / xi (D) over Fp2, xi the Fp6 non-residue
    LET F == TF(e)  xi == e.lv[2].nr IN
    << <<"G1 / G2 have a = 0", NIsZero(e.g1_a) /\ e.g2_a = TZero(F, 1)>>,
       <<"G2 b = G1 b * xi (M-twist) or G1 b / xi (D-twist)", e.g2_b = SexticTwistB(F, e.g1_b, xi, e.twist)>> >>
MntChecks(e) ==
    LET F == TF(e)  tw == e.twist  tw2 == TMul(F, 1, tw, tw)  tw3 == TMul(F, 1, tw2, tw)
        q == <<TRUE, e.p>>  hr == <<TRUE, NMul(e.h, e.r)>>
        ad == SDigits(SeqReverse(e.ate))                       \* the MNT loops read the digits most significant first
        ate == <<~e.ate_neg, ad[2]>>
        w0 == <<~e.w0_neg, e.w0>>  w1 == <<TRUE, e.w1>>
        phi == IF e.k = 4 THEN SAdd(SMul(q, q), SInt(1)) ELSE SAdd(SAdd(SMul(q, q), SNeg(q)), SInt(1))      \* Phi_k(q)
    IN  << <<"TWIST is the adjoined root", tw = TopGen(F, 1)>>,
           <<"TWIST_COEFF_A = a * TWIST^2", e.twist_a = TMulPrime(F, 1, tw2, e.g1_a)>>,
           <<"G2: a' = a TWIST^2, b' = b TWIST^3", e.g2_a = e.twist_a /\ e.g2_b = TMulPrime(F, 1, tw3, e.g1_b)>>,
           <<"ATE_LOOP_COUNT digits are non-negative as a whole", ad[1]>>,
           <<"ATE_LOOP_COUNT = t - 1 = q - #E(Fq)", SEq(ate, SAdd(q, SNeg(hr)))>>,
           <<"final exponent: Phi_k(q) = r (w1 q + w0)", SEq(phi, SMul(<<TRUE, e.r>>, SAdd(SMul(w1, q), w0)))>> >>
Bw6Checks(e) ==
    LET x == <<e.x_pos, e.x>>
        xm1 == SAdd(x, SInt(-1))
        r4 == SPolyEval(<<1, 0, -1, 0, 1>>, x)
        a2 == <<~e.ate2_neg, SDigits(e.ate2)[2]>>
    IN  << <<"X_MINUS_1_DIV_3 = |x - 1| / 3", NMul(N(3), e.x_minus_1_div_3) = xm1[2]>>,
           <<"r is the BLS12 base-field prime of the seed: 3 (r - x) = (x - 1)^2 (x^4 - x^2 + 1)",
             SEq(SAdd(SMul(SInt(3), <<TRUE, e.r>>), SNeg(SMul(SInt(3), x))), SMul(SMul(xm1, xm1), r4))>>,
           <<"ATE_LOOP_COUNT_1 = x", SEq(<<~e.ate1_neg, e.ate1>>, x)>>,
           <<"ATE_LOOP_COUNT_2 = x^2 - x - 1", SDigits(e.ate2)[1] /\ SEq(a2, SPolyEval(<<-1, -1, 1>>, x))>>,
           <<"G1 / G2 have a = 0", NIsZero(e.g1_a) /\ NIsZero(e.g2_a)>> >>

\* Montgomery form B t^2 = s^3 + A s^2 + s of the twisted Edwards curve a x^2 + y^2 = 1 + d x^2 y^2:  A = 2 (a + d) / (a - d),  B = 4 / (a - d)
MontChecks(e) ==
    LET C == [kind |-> "te", F |-> TF(e), K |-> Len(e.lv), a |-> e.a, d |-> e.d]
        amd == FSub(C, e.a, e.d) IN
    << <<"a # d", amd # FZero(C)>>,
       <<"MontCurveConfig::COEFF_A (a - d) = 2 (a + d)", FMul(C, e.A, amd) = FMul(C, FInt(C, 2), FAdd(C, e.a, e.d))>>,
       \* B is only determined up to squares by "birationally equivalent": B (a - d) / 4 must be a non-zero square
       \* (curves/bls12_377 G1 ships the Montgomery form of a rescaled Edwards model)
       <<"MontCurveConfig::COEFF_B (a - d) / 4 is a non-zero square", FMul(C, e.B, amd) # FZero(C) /\ TIsSquare(C.F, C.K, FMul(C, FMul(C, e.B, amd), FInv(C, FInt(C, 4))))>> >>
Ell2Checks(e) ==
    LET C == [kind |-> "te", F |-> TF(e), K |-> Len(e.lv)] IN
    << <<"Z is a non-square", ~TIsSquare(C.F, C.K, e.Z)>>,
       \* Elligator2Map applies the standard rational map (s, t) -> (s / t, (s - 1) / (s + 1)), which lands on a x^2 + y^2 = 1 + d x^2 y^2
       \* exactly when a = (A + 2) / B and d = (A - 2) / B
       <<"a B = A + 2 and d B = A - 2", FMul(C, e.a, e.B) = FAdd(C, e.A, FInt(C, 2)) /\ FMul(C, e.d, e.B) = FSub(C, e.A, FInt(C, 2))>>,
       <<"ONE_OVER_COEFF_B_SQUARE B^2 = 1", e.B # FZero(C) /\ FMul(C, e.one_over_b_sq, FMul(C, e.B, e.B)) = FOne(C)>>,
       <<"COEFF_A_OVER_COEFF_B B = A", FMul(C, e.a_over_b, e.B) = e.A>> >>

Checks(e) ==
    CASE e.op = "fp" -> FpChecks(e)
      [] e.op = "ext" -> ExtChecks(e)
      [] e.op = "curve" -> CurveChecks(e)
      [] e.op = "glv" -> GlvChecks(e)
      [] e.op = "wb" -> WbChecks(e)
      [] e.op = "bls12" -> Bls12Checks(e) \o TwistChecks(e)
      [] e.op = "bn" -> BnChecks(e) \o TwistChecks(e)
      [] e.op = "mnt" -> MntChecks(e)
      [] e.op = "bw6" -> Bw6Checks(e)
      [] e.op = "mont" -> MontChecks(e)
      [] e.op = "ell2" -> Ell2Checks(e)
      [] e.op = "reset" -> <<>>
Failing(e) == LET cs == Checks(e) IN SelectSeq([i \in 1..Len(cs) |-> IF cs[i][2] THEN "" ELSE cs[i][1]] \o <<>>, LAMBDA s : s # "")

VARIABLES l, nbad
TInit == l = 1 /\ nbad = 0
TNext == \/ /\ l <= Len(Rec)
            /\ LET e == Rec[l] IN
                 IF Failing(e) = <<>> THEN UNCHANGED nbad
                 ELSE /\ PrintT(<<"MISMATCH", ToJson([line |-> l, event |-> [op |-> e.op, name |-> e.name], failing |-> Failing(e)])>>)
                      /\ nbad' = nbad + 1
            /\ l' = l + 1
         \/ /\ l = Len(Rec) + 1
            /\ PrintT(<<"TRACE-DONE", ToJson([lines |-> Len(Rec), mismatches |-> nbad])>>)
            /\ l' = l + 1 /\ UNCHANGED nbad
TSpec == TInit /\ [][TNext]_<<l, nbad>>
Accepted == TLCGet("stats").diameter = Len(Rec) + 2
=============================================================================
