CONSTANT BIG = TRUE
CONSTANT R <- TR
CONSTANT NREG <- TNREG
SPECIFICATION TSpec
POSTCONDITION Accepted
CHECK_DEADLOCK FALSE
