----------------------------- MODULE Trace_Curve -----------------------------
(* Conformance B for CurveMachine at full size: an ndjson trace recorded from    *)
(* the real group code (IOEnv.TRACE).  Registers are logged in the               *)
(* implementation's RAW representation - Jacobian (X,Y,Z) or extended (X,Y,T,Z)  *)
(* coordinates as Montgomery limbs - and mapped to abstract points by the         *)
(* specification's own abstraction functions, which also check the                *)
(* representation invariants (canonical limbs, on curve, T Z = X Y).              *)
EXTENDS CurveMachine, Json, IOUtils

Rec == ndJsonDeserialize(IOEnv.TRACE)
Hdr == Rec[1]
TF  == [p |-> Hdr.p, lv |-> Hdr.lv]
TK  == Len(Hdr.lv)
TC  == IF Hdr.kind = "sw"
       THEN [kind |-> "sw", F |-> TF, K |-> TK, a |-> Hdr.a, b |-> Hdr.b, r |-> Hdr.r, h |-> Hdr.h,
             lambda |-> IF "lambda" \in DOMAIN Hdr THEN Hdr.lambda ELSE Hdr.r]
       ELSE [kind |-> "te", F |-> TF, K |-> TK, a |-> Hdr.a, d |-> Hdr.d, r |-> Hdr.r, h |-> Hdr.h]
TNREG == Hdr.nreg
NL  == Hdr.nlimbs
HEFF == IF "heff" \in DOMAIN Hdr THEN Hdr.heff ELSE Hdr.h

VARIABLES l, phase, nbad
tvars == <<regs, ev, l, phase, nbad>>
Has(e, f) == f \in DOMAIN e

MontRinvC == NModInv(NMod(NPow2(64 * NL), C.F.p), C.F.p)
RECURSIVE DecodeElem(_, _), CanonElem(_, _)
DecodeElem(k, raw) == IF k = 0 THEN NMod(NMul(raw, MontRinvC), C.F.p)
                      ELSE Mk(Deg(C.F, k), LAMBDA i : DecodeElem(k-1, raw[i]))
CanonElem(k, raw)  == IF k = 0 THEN NLt(raw, C.F.p)
                      ELSE \A i \in 1..Deg(C.F, k) : CanonElem(k-1, raw[i])
\* raw coordinates -> abstract point ("bad" when a representation invariant is broken)
Coords(raw) == [i \in 1..Len(raw) |-> DecodeElem(C.K, raw[i])] \o <<>>
RawOK(raw)  == /\ \A i \in 1..Len(raw) : CanonElem(C.K, raw[i])
               /\ IF C.kind = "sw" THEN Len(raw) = 3 ELSE Len(raw) = 4 /\ ExtInvariant(C, Coords(raw))
Abs(raw) == IF C.kind = "sw" THEN JacToAffine(C, Coords(raw)) ELSE ExtToAffine(C, Coords(raw))

TInit == /\ regs = [i \in 1..TNREG |-> Id] \o <<>>
         /\ ev = [op |-> "init"]
         /\ l = 2 /\ phase = "act" /\ nbad = 0

MachineStep(e) ==
    CASE e.op = "load" -> Load(e.d, Abs(e.w[1][2]))
      [] e.op = "add" -> Add(e.d, e.s)
      [] e.op = "sub" -> Sub(e.d, e.s)
      [] e.op = "dbl" -> Dbl(e.d)
      [] e.op = "neg" -> Neg(e.d)
      [] e.op = "sum" -> Sum(e.d, e.ss)
      [] e.op = "mul" -> Mul(e.d, e.k, e.alg)
      [] e.op = "msm" -> MsmLin(e.d, e.s, e.as, e.ks, e.alg)
      [] e.op = "recover" -> Recover(e.c, e.got)
      [] e.op = "from_coord" -> FromCoord(e.d, e.c, e.greatest, Abs(e.w[1][2]))
      [] e.op = "rand" -> RandPoint(e.d, Abs(e.w[1][2]))
      [] e.op = "glv_decomp" -> GlvDecomp(e.k, e.s1, e.k1, e.s2, e.k2)
      [] e.op \in {"eq", "is_zero", "on_curve", "in_subgroup"} -> Query(e.op, e.d, e.s)
      [] e.op = "clear_cofactor" -> IF "heff_rel" \in DOMAIN Hdr THEN ClearCofactorRel(e.d, Abs(e.w[1][2])) ELSE ClearCofactor(e.d, HEFF)
      [] e.op = "mul_by_cofactor" -> MulByCofactor(e.d)
      [] e.op = "mul_by_cofactor_inv" -> MulByCofactorInv(e.d)
      [] e.op \in {"affine_roundtrip", "normalize_batch"} -> Repr(e.op, e.ds)

Act == /\ phase = "act" /\ l <= Len(Rec)
       /\ LET e == Rec[l] IN
            \/ ~Has(e, "panic") /\ MachineStep(e)
            \/ /\ \/ Has(e, "panic")
                  \/ e.op \in {"load", "add", "sub", "dbl", "mul_by_cofactor_inv", "clear_cofactor", "recover", "from_coord", "rand", "glv_decomp"} /\ ~ENABLED MachineStep(e)
               /\ UNCHANGED regs
               /\ ev' = [op |-> "REJECTED"]
       /\ phase' = "cmp" /\ UNCHANGED <<l, nbad>>

Mismatches(e) == {i \in 1..Len(e.w) : ~RawOK(e.w[i][2]) \/ regs[e.w[i][1]] # Abs(e.w[i][2])}
RetBad(e) == \/ ev.op = "REJECTED"
             \/ (Has(e, "ret") /\ Has(ev, "ret") /\ e.ret # ev.ret)
             \/ (Has(e, "ret") /\ ~Has(ev, "ret") /\ e.ret # "ok")

Cmp == /\ phase = "cmp"
       /\ LET e   == Rec[l]
              bad == Mismatches(e)
          IN  IF bad = {} /\ ~RetBad(e)
              THEN UNCHANGED <<regs, nbad>>
              ELSE /\ PrintT(<<"MISMATCH", ToJson([line |-> l, event |-> [f \in (DOMAIN e) \ {"w", "as", "ks"} |-> e[f]], spec_ev |-> ev,
                                   bad_regs |-> [i \in bad |-> e.w[i][1]],
                                   spec_regs |-> [i \in bad |-> regs[e.w[i][1]]],
                                   got |-> [i \in bad |-> IF RawOK(e.w[i][2]) THEN Abs(e.w[i][2]) ELSE <<"representation invariant broken">>]])>>)
                   /\ nbad' = nbad + 1
                   /\ regs' = [r \in 1..TNREG |->
                                 IF \E i \in 1..Len(e.w) : e.w[i][1] = r /\ RawOK(e.w[i][2])
                                 THEN Abs(e.w[CHOOSE i \in 1..Len(e.w) : e.w[i][1] = r][2])
                                 ELSE regs[r]] \o <<>>
       /\ phase' = "act" /\ l' = l + 1 /\ UNCHANGED ev

Done == /\ phase = "act" /\ l = Len(Rec) + 1
        /\ PrintT(<<"TRACE-DONE", ToJson([lines |-> Len(Rec), mismatches |-> nbad])>>)
        /\ l' = l + 1 /\ UNCHANGED <<regs, ev, phase, nbad>>

TNext == Act \/ Cmp \/ Done
TSpec == TInit /\ [][TNext]_tvars
Accepted == TLCGet("stats").diameter = 2 * (Len(Rec) - 1) + 2
=============================================================================
