------------------------------ MODULE Trace_Ser ------------------------------
(***************************************************************************)
(* Conformance B for serialization at FULL SIZE (C09, C10): calls of the     *)
(* real serializers and deserializers of field elements and curve points of  *)
(* shipped curves - in the library's own format (Codec) or, for              *)
(* curves/bls12_381, the format that crate substitutes (ZcashCodec).         *)
(* Every event is decided by the total encode / decode functions of the      *)
(* specification; for a decode that validation rejects, the event carries a  *)
(* witness W - what the same bytes decode to without validation - and the    *)
(* specification checks that W is what the bytes denote and is NOT a valid   *)
(* group element (SerMachine.DeserPointOK).                                  *)
(***************************************************************************)
EXTENDS ZcashCodec, Json, IOUtils, TLC

Rec == ndJsonDeserialize(IOEnv.TRACE)
Hdr == Rec[1]
TF  == [p |-> Hdr.p, lv |-> Hdr.lv]
TK  == Len(Hdr.lv)
C   == IF Hdr.kind = "sw"
       THEN [kind |-> "sw", F |-> TF, K |-> TK, a |-> Hdr.a, b |-> Hdr.b, r |-> Hdr.r, h |-> Hdr.h]
       ELSE [kind |-> "te", F |-> TF, K |-> TK, a |-> Hdr.a, d |-> Hdr.d, r |-> Hdr.r, h |-> Hdr.h]
Z   == Hdr.format = "zcash"
Has(e, f) == f \in DOMAIN e

Outcome(bs, compressed, validate) == IF Z THEN ZDecPointOutcome(C, bs, compressed) ELSE DecPointOutcome(C, bs, compressed, validate)
Matches(bs, compressed, P) == IF Z THEN ZPointMatches(C, bs, compressed, P) ELSE PointMatches(C, bs, compressed, P)
\* SerMachine.DeserPointOK, for either format
DeserOK(bs, compressed, validate, ok, Q, W) ==
    LET oc == Outcome(bs, compressed, validate) IN
    IF oc = "err" THEN ~ok
    ELSE IF ok THEN Matches(bs, compressed, Q) /\ (validate => (Q = Identity(C) \/ Valid(C, Q)))
    ELSE validate /\ Matches(bs, compressed, W) /\ W # Identity(C) /\ ~Valid(C, W)

Checks(e) ==
    CASE e.op = "ser_point" ->
           LET want == IF Z THEN ZEncPoint(C, e.P, e.compressed) ELSE EncPoint(C, e.P, e.compressed) IN
           << <<"bytes are the encoding of the point", e.bytes = want>>,
              <<"advertised size = bytes written", e.size = Len(e.bytes)>> >>
      [] e.op = "deser_point" ->
           << <<"decoding outcome (error / the denoted point / rejected by validation)", DeserOK(e.bytes, e.compressed, e.validate, e.ok, e.Q, e.W)>>,
              <<"bytes consumed", e.ok => e.n = (IF Z THEN ZPointSize(C, e.compressed) ELSE PointSize(C, e.compressed))>> >>
      [] e.op = "ser_field" ->
           LET want == EncField(C.F, C.K, e.v, FlagBits(e.kind), e.mask) IN
           << <<"bytes are the encoding of the element and its flags", e.bytes = want>>,
              <<"advertised size = bytes written", e.size = Len(e.bytes) /\ e.size = FieldSize(C.F, C.K, FlagBits(e.kind))>> >>
      [] e.op = "deser_field" ->
           LET r == DecField(C.F, C.K, e.bytes, e.kind) IN
           << <<"decoding outcome", IF r.st = "err" THEN ~e.ok ELSE e.ok /\ e.v = r.v /\ e.flag = r.flag /\ e.n = r.n>>,
              \* uniqueness: whatever decodes re-encodes to the same bytes
              <<"accepted bytes are the canonical encoding", r.st = "ok" =>
                   EncField(C.F, C.K, r.v, FlagBits(e.kind), CASE r.flag = "inf" -> 64 [] r.flag = "neg" -> 128 [] OTHER -> 0) = SubSeq(e.bytes, 1, r.n)>> >>
Failing(e) == IF Has(e, "panic") THEN <<"panic">>
              ELSE LET cs == Checks(e) IN SelectSeq([i \in 1..Len(cs) |-> IF cs[i][2] THEN "" ELSE cs[i][1]] \o <<>>, LAMBDA s : s # "")

VARIABLES l, nbad
TInit == l = 2 /\ nbad = 0
TNext == \/ /\ l <= Len(Rec)
            /\ LET e == Rec[l] IN
                 IF Failing(e) = <<>> THEN UNCHANGED nbad
                 ELSE /\ PrintT(<<"MISMATCH", ToJson([line |-> l, event |-> e, failing |-> Failing(e)])>>)
                      /\ nbad' = nbad + 1
            /\ l' = l + 1
         \/ /\ l = Len(Rec) + 1
            /\ PrintT(<<"TRACE-DONE", ToJson([lines |-> Len(Rec), mismatches |-> nbad])>>)
            /\ l' = l + 1 /\ UNCHANGED nbad
TSpec == TInit /\ [][TNext]_<<l, nbad>>
Accepted == TLCGet("stats").diameter = Len(Rec) + 1
=============================================================================
