----------------------------- MODULE Trace_Field -----------------------------
(***************************************************************************)
(* Conformance B for FieldMachine: an ndjson trace recorded from the real    *)
(* ark-ff code (IOEnv.TRACE) is validated as a behaviour of FieldMachine     *)
(* over arbitrary-precision numbers.                                         *)
(*                                                                           *)
(* Line 1:   {"op":"reset","p":bytes,"nlimbs":N,"lv":[{deg,nr}..],"nreg":K}  *)
(* Line l:   {"op":..., args..., "w":[[reg, raw element]..], "ret":...}      *)
(*                                                                           *)
(* The spec carries the abstract register file from event to event: logged   *)
(* values are only COMPARED (after decoding the raw Montgomery limbs with    *)
(* the spec's own abstraction function), never used as inputs - except for   *)
(* "load" events (fresh values entering the machine) and after a reported    *)
(* mismatch (resynchronisation, so that the rest of the trace is checked).   *)
(*                                                                           *)
(* Each event takes two steps: "act" applies the FieldMachine action,        *)
(* "cmp" compares the result with the log.                                   *)
(***************************************************************************)
EXTENDS FieldMachine, Json, IOUtils

Rec == ndJsonDeserialize(IOEnv.TRACE)
Hdr == Rec[1]
TF  == [p |-> Hdr.p, lv |-> Hdr.lv]
TK  == Len(Hdr.lv)
TNREG == Hdr.nreg
NL  == Hdr.nlimbs

VARIABLES l, phase, nbad
tvars == <<regs, ev, l, phase, nbad>>

RECURSIVE DecodeElem(_, _), CanonElem(_, _)
DecodeElem(k, raw) == IF k = 0 THEN MontDecode(F.p, NL, raw)
                      ELSE Mk(Deg(F, k), LAMBDA i : DecodeElem(k-1, raw[i]))
CanonElem(k, raw)  == IF k = 0 THEN MontCanonical(F.p, raw)
                      ELSE \A i \in 1..Deg(F, k) : CanonElem(k-1, raw[i])

Has(e, f) == f \in DOMAIN e
RetSome(e) == Has(e, "ret") /\ e.ret = "some"

TInit == /\ regs = [i \in 1..TNREG |-> Zero] \o <<>>
         /\ ev = [op |-> "init"]
         /\ l = 2 /\ phase = "act" /\ nbad = 0

\* the FieldMachine action denoted by a logged event
MachineStep(e) ==
    CASE e.op = "load" -> Load(e.d, DecodeElem(K, e.w[1][2]))
      [] e.op \in {"add", "sub", "mul", "div"} -> Bin(e.op, e.d, e.s)
      [] e.op \in {"neg", "dbl", "sqr", "inv"} -> Un(e.op, e.d)
      [] e.op = "pow" -> Pow(e.d, e.e)
      [] e.op = "frob" -> Frob(e.d, e.n)
      [] e.op = "from_int" -> FromInt(e.d, e.ty, e.neg, e.mag)
      [] e.op = "sum_of_products" -> SumProd(e.d, e.is, e.js)
      [] e.op = "batch_inv" -> BatchInv(e.ds, e.c)
      [] e.op \in {"is_zero", "is_one", "eq", "cmp", "legendre"} -> Query(e.op, e.d, e.s)
      [] e.op = "sqrt" -> Sqrt(e.d, RetSome(e), IF Len(e.w) > 0 THEN DecodeElem(K, e.w[1][2]) ELSE Zero)
      [] e.op = "from_bytes_mod" -> FromBytesMod(e.d, e.be, e.bytes)
      [] e.op = "from_bigint" -> FromBigInt(e.d, e.v)
      [] e.op = "into_bigint" -> IntoBigInt(e.d)
      [] e.op = "from_str" -> FromStr(e.d, e.neg, e.mag)
      [] e.op = "to_str" -> ToStr(e.d)
      [] e.op = "norm" -> Norm(e.d)
      [] e.op = "conj" -> Conj(e.d)
      [] e.op = "mul_base" -> MulBase(e.d, e.j, e.s)
      [] e.op = "sparse" -> Sparse(e.d, e.slots, e.cs)
      [] e.op = "cyc_sq" -> CycSq(e.d)
      [] e.op = "cyc_inv" -> CycInv(e.d)
      [] e.op = "cyc_exp" -> CycExp(e.d, e.e)

Act == /\ phase = "act" /\ l <= Len(Rec)
       /\ LET e == Rec[l] IN
            \/ ~Has(e, "panic") /\ MachineStep(e)
            \/ /\ \/ Has(e, "panic")
                  \/ e.op \in {"div", "load", "batch_inv", "sum_of_products"} /\ ~ENABLED MachineStep(e)
                  \/ e.op = "sqrt" /\ ~SqrtOK(e.d, RetSome(e), IF Len(e.w) > 0 THEN DecodeElem(K, e.w[1][2]) ELSE Zero)
                  \* no behaviour of the spec matches this event
               /\ UNCHANGED regs
               /\ ev' = [op |-> "REJECTED"]
       /\ phase' = "cmp" /\ UNCHANGED <<l, nbad>>

\* compare the spec's post-state and returned value with the log
Mismatches(e) ==
    {i \in 1..Len(e.w) : ~CanonElem(K, e.w[i][2]) \/ regs[e.w[i][1]] # DecodeElem(K, e.w[i][2])}
RetBad(e) == \/ ev.op = "REJECTED"
             \/ Has(e, "panic")
             \/ (Has(e, "ret") /\ Has(ev, "ret") /\ e.ret # ev.ret)
             \/ (Has(e, "ret") /\ ~Has(ev, "ret") /\ e.ret # "null")

Debug == "DEBUG" \in DOMAIN IOEnv
Cmp == /\ phase = "cmp"
       /\ Debug => PrintT(<<"dbg", l, Rec[l].op, JavaTime>>)
       /\ LET e   == Rec[l]
              bad == Mismatches(e)
          IN  IF bad = {} /\ ~RetBad(e)
              THEN UNCHANGED <<regs, nbad>>
              ELSE /\ PrintT(<<"MISMATCH", ToJson([line |-> l, event |-> e,
                                   spec_ev |-> ev,
                                   spec_regs |-> [i \in bad |-> regs[e.w[i][1]]],
                                   canonical |-> [i \in bad |-> CanonElem(K, e.w[i][2])]])>>)
                   /\ nbad' = nbad + 1
                   \* resynchronise on the logged values so that the rest of the trace is checked
                   /\ regs' = [r \in 1..TNREG |->
                                 IF \E i \in 1..Len(e.w) : e.w[i][1] = r
                                 THEN DecodeElem(K, e.w[CHOOSE i \in 1..Len(e.w) : e.w[i][1] = r][2])
                                 ELSE regs[r]] \o <<>>
       /\ phase' = "act" /\ l' = l + 1 /\ UNCHANGED ev

Done == /\ phase = "act" /\ l = Len(Rec) + 1
        /\ PrintT(<<"TRACE-DONE", ToJson([lines |-> Len(Rec), mismatches |-> nbad])>>)
        /\ l' = l + 1 /\ UNCHANGED <<regs, ev, phase, nbad>>

TNext == Act \/ Cmp \/ Done
TSpec == TInit /\ [][TNext]_tvars

\* every line was consumed: 2 states per event + initial + done
Accepted == TLCGet("stats").diameter = 2 * (Len(Rec) - 1) + 2
TraceTypeOK == TypeOK
=============================================================================
