------------------------------ MODULE Trace_H2C ------------------------------
(* Conformance B for hashing to fields and curves (C13): every logged call of the real        *)
(* DefaultFieldHasher / SWUMap / WBMap / MapToCurveBasedHasher is checked against H2C.        *)
EXTENDS H2C, Json, IOUtils, TLC

Rec == ndJsonDeserialize(IOEnv.TRACE)
Hdr == Rec[1]
TF  == [p |-> Hdr.p, lv |-> Hdr.lv]
TK  == Len(Hdr.lv)
\* target curve E and the isogenous curve E' of the simplified SWU map
CE  == [kind |-> "sw", F |-> TF, K |-> TK, a |-> Hdr.a, b |-> Hdr.b, r |-> Hdr.r, h |-> Hdr.h]
CI  == [kind |-> "sw", F |-> TF, K |-> TK, a |-> Hdr.iso_a, b |-> Hdr.iso_b, r |-> Hdr.r, h |-> Hdr.h]
\* twisted Edwards target of an Elligator 2 suite
CT  == [kind |-> "te", F |-> TF, K |-> TK, a |-> Hdr.a, d |-> (IF "d" \in DOMAIN Hdr THEN Hdr.d ELSE Hdr.a), r |-> Hdr.r, h |-> Hdr.h]
M   == IF TK = 0 THEN 1 ELSE TExtDeg(TF, TK)
Has(e, f) == f \in DOMAIN e

Check(e) ==
    CASE e.op = "hash_to_field" -> HashToField(Hdr.hash, Hdr.p, M, Hdr.k, e.msg, e.dst, e.count) = e.ret
      [] e.op = "hash_to_prime_field" -> HashToField(e.hash, e.p, 1, e.k, e.msg, e.dst, e.count) = e.ret
      [] e.op = "map_swu" -> SswuOK(CI, Hdr.zeta, e.u, e.ret)
      [] e.op = "map_wb" -> /\ SswuOK(CI, Hdr.zeta, e.u, e.q)
                            /\ e.ret = IsoApply(CE, Hdr.iso, e.q) /\ OnCurve(CE, e.ret)
      [] e.op = "map_ell2" -> Ell2OK(CT, Hdr.J, Hdr.K, Hdr.Z, e.u, e.ret) /\ OnCurve(CT, e.ret)
      [] e.op = "hash_to_curve_ell2" ->        \* the two field elements are taken as logged (hash_to_field is checked by its own events)
            /\ Ell2OK(CT, Hdr.J, Hdr.K, Hdr.Z, e.u[1], e.q[1]) /\ Ell2OK(CT, Hdr.J, Hdr.K, Hdr.Z, e.u[2], e.q[2])
            /\ OnCurve(CT, e.q[1]) /\ OnCurve(CT, e.q[2])
            /\ e.ret = PMul(CT, Hdr.heff, PAdd(CT, e.q[1], e.q[2]))
            /\ OnCurve(CT, e.ret) /\ PMul(CT, CT.r, e.ret) = Identity(CT)
      [] e.op = "hash_to_curve" ->
            /\ HashToField(Hdr.hash, Hdr.p, M, Hdr.k, e.msg, e.dst, 2) = e.u
            /\ SswuOK(CI, Hdr.zeta, e.u[1], e.q[1]) /\ SswuOK(CI, Hdr.zeta, e.u[2], e.q[2])
            /\ LET S == PAdd(CE, IsoApply(CE, Hdr.iso, e.q[1]), IsoApply(CE, Hdr.iso, e.q[2])) IN
                 /\ e.ret = PMul(CE, Hdr.heff, S)
                 /\ OnCurve(CE, e.ret) /\ PMul(CE, CE.r, e.ret) = Identity(CE)

VARIABLES l, nbad
TInit == l = 2 /\ nbad = 0
TNext == \/ /\ l <= Len(Rec)
            /\ LET e == Rec[l] IN
                 IF ~Has(e, "panic") /\ Check(e) THEN UNCHANGED nbad
                 ELSE /\ PrintT(<<"MISMATCH", ToJson([line |-> l, event |-> e])>>)
                      /\ nbad' = nbad + 1
            /\ l' = l + 1
         \/ /\ l = Len(Rec) + 1
            /\ PrintT(<<"TRACE-DONE", ToJson([lines |-> Len(Rec), mismatches |-> nbad])>>)
            /\ l' = l + 1 /\ UNCHANGED nbad
TSpec == TInit /\ [][TNext]_<<l, nbad>>
Accepted == TLCGet("stats").diameter = Len(Rec) + 1
=============================================================================
