------------------------------ MODULE Trace_Poly ------------------------------
(***************************************************************************)
(* Conformance B for PolyMachine at FULL SIZE (C07, C08; under rayon pools   *)
(* C14): calls of the real ark-poly code over a shipped FFT-friendly field,   *)
(* with polynomials and domains of up to 2^13 elements - the sizes at which   *)
(* the FFT switches to its chunked / compacting / parallel code paths.        *)
(*                                                                           *)
(* Every event is a call of one PolyMachine action with its operands (`pre`   *)
(* registers, domain, vector) and its results (`post`, `ret`).  Linear        *)
(* operations, evaluation, element tables and vanishing polynomials are       *)
(* recomputed exactly.  Results whose definition costs O(n^2) are decided by  *)
(* relations that characterise them (Poly.tla: DftIdentity, LagrangeClosed;   *)
(* products and quotients by the polynomial identity at the logged point z    *)
(* together with the degree bounds that make quotient and remainder unique):  *)
(* a correct result always satisfies them; a wrong one satisfies them for at  *)
(* most n of the p > 2^250 possible z.  MC_Poly proves on the toy domains     *)
(* that the relations are theorems of the definitions.                        *)
(***************************************************************************)
EXTENDS PolyMachine, Json, IOUtils

Rec == ndJsonDeserialize(IOEnv.TRACE)
Hdr == Rec[1]
TP == Hdr.p
Has(e, f) == f \in DOMAIN e

Canon(c) == IsPoly(P, c)
Ev(c, x) == PEval(P, c, x)
DomBig(dom) == dom.n >= 1 /\ HasOrder(P, dom.g, dom.n) /\ ~NIsZero(dom.h) /\ NLt(dom.g, P) /\ NLt(dom.h, P)
ZofDom(dom, x) == FpSub(P, FpPow(P, x, N(dom.n)), FpPow(P, dom.h, N(dom.n)))      \* vanishing polynomial at x
\* admissible sizes (TLC integers; the header gives two-adicity and the small subgroup)
Pow2Le(m) == CHOOSE k \in 0..30 : 2 ^ k >= m /\ (k = 0 \/ 2 ^ (k - 1) < m)

Checks(e) ==
    LET a == IF Has(e, "pre") THEN e.pre[e.d] ELSE <<>>
        b == IF Has(e, "pre") /\ Has(e, "s") THEN e.pre[e.s] ELSE <<>>
        c == IF Has(e, "post") /\ Has(e, "d") THEN e.post[e.d] ELSE <<>>
        z == e.z
        dom == IF Has(e, "dom") THEN e.dom ELSE [n |-> 1, g |-> NOne, h |-> NOne]
        unchanged == Has(e, "post") => e.post = e.pre
    IN
    CASE e.op \in {"add", "sub"} ->
           << <<"sum / difference coefficient-wise", c = (IF e.op = "add" THEN PAdd(P, a, b) ELSE PSub(P, a, b))>> >>
      [] e.op = "neg" -> << <<"negation", c = PNeg(P, a)>> >>
      [] e.op = "scale" -> << <<"scaling", c = PScale(P, a, e.f)>> >>
      [] e.op = "add_scaled" -> << <<"a + f b", c = PAdd(P, a, PScale(P, b, e.f))>> >>
      [] e.op = "mul" ->
           << <<"product is canonical with degree deg a + deg b", Canon(c) /\ Len(c) = (IF Len(a) = 0 \/ Len(b) = 0 THEN 0 ELSE Len(a) + Len(b) - 1)>>,
              <<"c(z) = a(z) b(z)", Ev(c, z) = FpMul(P, Ev(a, z), Ev(b, z))>> >>
      [] e.op = "div" /\ ~Has(e, "ret") ->        \* quotient only (operator /): the remainder is recomputed exactly
           LET r == PSub(P, a, PMul(P, c, b)) IN
           << <<"quotient canonical, deg (a - q b) < deg b", Canon(c) /\ Len(r) < Len(b)>>,
              <<"deg q = deg a - deg b", Len(c) = (IF Len(a) < Len(b) THEN 0 ELSE Len(a) - Len(b) + 1)>> >>
      [] e.op = "div" ->
           << <<"quotient and remainder canonical, deg r < deg b", Canon(c) /\ Canon(e.ret) /\ Len(e.ret) < Len(b)>>,
              <<"deg q = deg a - deg b", Len(c) = (IF Len(a) < Len(b) THEN 0 ELSE Len(a) - Len(b) + 1)>>,
              <<"a(z) = q(z) b(z) + r(z)", Ev(a, z) = FpAdd(P, FpMul(P, Ev(c, z), Ev(b, z)), Ev(e.ret, z))>> >>
      [] e.op = "evaluate" -> << <<"value by Horner", e.ret = Ev(a, e.x) /\ unchanged>> >>
      [] e.op = "degree" -> << <<"degree", e.ret = MaxN(PDeg(a), 0) /\ unchanged>> >>
      [] e.op = "is_zero" -> << <<"is_zero", e.ret = (Len(a) = 0) /\ unchanged>> >>
      [] e.op = "eq" -> << <<"eq", e.ret = (a = b) /\ unchanged>> >>
      [] e.op = "coeffs" -> << <<"coefficients", e.ret = a /\ unchanged>> >>
      [] e.op = "terms" -> << <<"terms", e.ret = DenseToSparse(a) /\ unchanged>> >>
      [] e.op = "evaluate_over_domain" ->
           << <<"domain", DomBig(dom)>>, <<"evaluations = values at h g^i", DftIdentity(P, dom.g, dom.h, dom.n, a, e.ret, z) /\ unchanged>> >>
      [] e.op = "interpolate" ->
           << <<"domain", DomBig(dom)>>,
              <<"interpolant canonical of degree < n", Canon(c) /\ Len(c) <= dom.n>>,
              <<"interpolant takes the given values", DftIdentity(P, dom.g, dom.h, dom.n, c, e.v, z)>> >>
      [] e.op = "mul_by_vanishing_poly" ->
           << <<"canonical, degree deg a + n", Canon(c) /\ Len(c) = (IF Len(a) = 0 THEN 0 ELSE Len(a) + dom.n)>>,
              <<"c(z) = a(z) (z^n - h^n)", Ev(c, z) = FpMul(P, Ev(a, z), ZofDom(dom, z))>> >>
      [] e.op = "divide_by_vanishing_poly" ->
           << <<"canonical, deg r < n, deg q = deg a - n", Canon(c) /\ Canon(e.ret) /\ Len(e.ret) <= dom.n
                                                         /\ Len(c) = (IF Len(a) <= dom.n THEN 0 ELSE Len(a) - dom.n)>>,
              <<"a(z) = q(z) (z^n - h^n) + r(z)", Ev(a, z) = FpAdd(P, FpMul(P, Ev(c, z), ZofDom(dom, z)), Ev(e.ret, z))>> >>
      [] e.op = "new_domain" ->
           LET s == IF Hdr.two_adicity > 28 THEN 28 ELSE Hdr.two_adicity      \* requests stay far below 2^28 (TLC integers are 32-bit)
               r2 == IF e.m <= 2 ^ s THEN 2 ^ Pow2Le(e.m) ELSE 0
               mixed == IF Hdr.small_base = 0 THEN {} ELSE {(2 ^ i) * (IF j = 0 THEN 1 ELSE Hdr.small_base ^ j) : i \in 0..(IF s > 20 THEN 20 ELSE s), j \in 0..Hdr.small_adicity}
               mx == IF \E n \in mixed : n >= e.m THEN CHOOSE n \in mixed : n >= e.m /\ \A k \in mixed : k >= e.m => n <= k ELSE 0
               want == CASE e.kind = "radix2" -> r2 [] e.kind = "mixed" -> mx [] e.kind = "general" -> (IF r2 # 0 THEN r2 ELSE mx)
           IN  << <<"minimal admissible size (or none)", e.ret.n = want>>,           \* n = 0 stands for "no such domain"
                  <<"generator of exactly that order, offset 1", e.ret.n # 0 => DomBig(e.ret) /\ e.ret.h = NOne>> >>
      [] e.op = "element" -> << <<"element(i) = h g^i", e.ret = DomElem(P, dom.g, dom.h, e.i)>> >>
      [] e.op = "elements" ->
           << <<"elements() = (h g^i)_i", Len(e.ret) = dom.n /\ e.ret[1] = dom.h /\ \A i \in 1..(dom.n - 1) : e.ret[i + 1] = FpMul(P, e.ret[i], dom.g)>> >>
      [] e.op = "fft" -> << <<"domain", DomBig(dom)>>, <<"fft = values at h g^i", DftIdentity(P, dom.g, dom.h, dom.n, e.v, e.ret, z)>> >>
      [] e.op = "ifft" -> << <<"domain", DomBig(dom)>>, <<"ifft inverts: the result takes the given values", Len(e.ret) = dom.n /\ DftIdentity(P, dom.g, dom.h, dom.n, e.ret, e.v, z)>> >>
      [] e.op = "vanishing_eval" -> << <<"Z(tau) = tau^n - h^n", e.ret = ZofDom(dom, e.tau)>> >>
      [] e.op = "vanishing_poly" -> << <<"Z = X^n - h^n", e.ret = VanishPoly(P, dom.h, dom.n)>> >>
      [] e.op = "lagrange_all" ->
           << <<"L_i(tau) for every i", Len(e.ret) = dom.n /\ \A i \in 1..dom.n : e.ret[i] = LagrangeClosed(P, dom.g, dom.h, dom.n, i - 1, e.tau)>>,
              <<"sum_i L_i(tau) = 1", FoldLeft(LAMBDA acc, i : FpAdd(P, acc, e.ret[i]), NZero, UpTo(1, Len(e.ret))) = NOne>> >>
      [] e.op = "size_inv" -> << <<"size_inv", FpMul(P, e.ret, NMod(N(dom.n), P)) = NOne>> >>
      [] e.op = "gen_inv" -> << <<"gen_inv", FpMul(P, e.ret, dom.g) = NOne>> >>
Failing(e) == IF Has(e, "panic") THEN <<"panic">>
              ELSE LET cs == Checks(e) IN SelectSeq([i \in 1..Len(cs) |-> IF cs[i][2] THEN "" ELSE cs[i][1]] \o <<>>, LAMBDA s : s # "")

VARIABLES l, nbad
TInit == regs = <<>> /\ ev = [op |-> "init"] /\ l = 2 /\ nbad = 0
Brief(e) == [f \in (DOMAIN e) \ {"pre", "post", "v", "ret"} |-> e[f]]
TNext == \/ /\ l <= Len(Rec)
            /\ LET e == Rec[l] IN
                 IF Failing(e) = <<>> THEN UNCHANGED nbad
                 ELSE /\ PrintT(<<"MISMATCH", ToJson([line |-> l, event |-> Brief(e), failing |-> Failing(e)])>>)
                      /\ nbad' = nbad + 1
            /\ l' = l + 1 /\ UNCHANGED <<regs, ev>>
         \/ /\ l = Len(Rec) + 1
            /\ PrintT(<<"TRACE-DONE", ToJson([lines |-> Len(Rec), mismatches |-> nbad])>>)
            /\ l' = l + 1 /\ UNCHANGED <<regs, ev, nbad>>
TSpec == TInit /\ [][TNext]_<<regs, ev, l, nbad>>
Accepted == TLCGet("stats").diameter = Len(Rec) + 1
=============================================================================
