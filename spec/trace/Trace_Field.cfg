CONSTANT BIG = TRUE
CONSTANT F <- TF
CONSTANT K <- TK
CONSTANT NREG <- TNREG
SPECIFICATION TSpec
INVARIANT TraceTypeOK
POSTCONDITION Accepted
CHECK_DEADLOCK FALSE
