CONSTANT BIG = TRUE
CONSTANT NL <- TNL
CONSTANT NREG <- TNREG
SPECIFICATION TSpec
INVARIANT TypeOK
POSTCONDITION Accepted
CHECK_DEADLOCK FALSE
