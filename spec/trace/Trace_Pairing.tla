---------------------------- MODULE Trace_Pairing ----------------------------
(* Conformance B for PairingMachine: the trace of a real pairing engine is        *)
(* validated through equality patterns: each event logs `grp`/`d` (the written    *)
(* register), `eqs` (registers of that group equal to it), `zero`, and for GT     *)
(* `valid` (order divides r).                                                     *)
EXTENDS PairingMachine, Json, IOUtils

Rec == ndJsonDeserialize(IOEnv.TRACE)
Hdr == Rec[1]
TR == Hdr.r
TNREG == Hdr.nreg
VARIABLES l, nbad,
          seen      \* history: <<group, discrete logarithm, fingerprint>> of every value written so far
tvars == <<g1, g2, gt, ev, l, nbad, seen>>
Has(e, f) == f \in DOMAIN e

TInit == Init /\ l = 2 /\ nbad = 0 /\ seen = {}

Step(e) ==
    CASE e.op = "load" -> Load(e.grp, e.d, e.k)
      [] e.op = "add" -> Add(e.grp, e.d, e.s)
      [] e.op = "neg" -> NegP(e.grp, e.d)
      [] e.op = "mul" -> Mul(e.grp, e.d, e.k)
      [] e.op = "pair" -> Pair(e.d, e.is, e.js, e.alg)
      [] e.op = "gt_mul" -> GtMul(e.d, e.s)
      [] e.op = "gt_inv" -> GtInv(e.d)
      [] e.op = "gt_pow" -> GtPow(e.d, e.k)
      [] e.op = "gt_reset" -> GtReset(e.d)
\* the observation is checked in the state AFTER the step (primed variables)
Grp(e) == IF Has(e, "grp") THEN e.grp ELSE 3
ObsOK(e) ==
    LET regs2 == IF Grp(e) = 1 THEN g1' ELSE IF Grp(e) = 2 THEN g2' ELSE gt' IN
    /\ ~Has(e, "panic")
    /\ {j \in Reg : regs2[j] = regs2[e.d]} = {e.eqs[i] : i \in 1..Len(e.eqs)}
    /\ (NIsZero(regs2[e.d]) <=> e.zero)
    /\ (Has(e, "valid") => e.valid)
    \* over the whole history: same logarithm <=> same fingerprint (the map from abstract to concrete values
    \* is a function, and it is injective)
    /\ (Has(e, "fp") => \A t \in seen : t[1] = Grp(e) => ((t[2] = regs2[e.d]) <=> (t[3] = e.fp)))
TNext == \/ /\ l <= Len(Rec)
            /\ LET e == Rec[l] IN
                 /\ Step(e)
                 /\ IF ObsOK(e) THEN UNCHANGED nbad
                    ELSE /\ PrintT(<<"MISMATCH", ToJson([line |-> l, event |-> e,
                                      expected_eqs |-> {j \in Reg : (IF Grp(e) = 1 THEN g1' ELSE IF Grp(e) = 2 THEN g2' ELSE gt')[j] = (IF Grp(e) = 1 THEN g1' ELSE IF Grp(e) = 2 THEN g2' ELSE gt')[e.d]},
                                      expected_zero |-> NIsZero((IF Grp(e) = 1 THEN g1' ELSE IF Grp(e) = 2 THEN g2' ELSE gt')[e.d])])>>)
                         /\ nbad' = nbad + 1
            /\ seen' = LET e == Rec[l] IN
                        IF Has(e, "fp") /\ ObsOK(e)
                        THEN seen \cup {<<Grp(e), (IF Grp(e) = 1 THEN g1' ELSE IF Grp(e) = 2 THEN g2' ELSE gt')[e.d], e.fp>>}
                        ELSE seen
            /\ l' = l + 1
         \/ /\ l = Len(Rec) + 1
            /\ PrintT(<<"TRACE-DONE", ToJson([lines |-> Len(Rec), mismatches |-> nbad])>>)
            /\ l' = l + 1 /\ UNCHANGED <<g1, g2, gt, ev, nbad, seen>>
TSpec == TInit /\ [][TNext]_tvars
Accepted == TLCGet("stats").diameter = Len(Rec) + 1
=============================================================================
