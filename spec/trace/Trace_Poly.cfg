CONSTANT BIG = TRUE
CONSTANT P <- TP
CONSTANT FGEN = 0
CONSTANT TWOADIC = 0
CONSTANT SBASE = 0
CONSTANT SPOW = 0
CONSTANT NREG = 2
SPECIFICATION TSpec
POSTCONDITION Accepted
CHECK_DEADLOCK FALSE
