CONSTANT BIG = TRUE
CONSTANT C <- TC
CONSTANT NREG <- TNREG
SPECIFICATION TSpec
INVARIANT TypeOK
POSTCONDITION Accepted
CHECK_DEADLOCK FALSE
