----------------------------- MODULE Trace_BigInt -----------------------------
(* Conformance B for BigIntMachine: validates an ndjson trace recorded from     *)
(* ark_ff::BigInt<N> (IOEnv.TRACE).  Same two-step scheme as Trace_Field.       *)
EXTENDS BigIntMachine, Json, IOUtils

Rec == ndJsonDeserialize(IOEnv.TRACE)
Hdr == Rec[1]
TNL == Hdr.nl
TNREG == Hdr.nreg

VARIABLES l, phase, nbad
tvars == <<regs, ev, l, phase, nbad>>
Has(e, f) == f \in DOMAIN e

TInit == /\ regs = [i \in 1..TNREG |-> NZero] \o <<>>
         /\ ev = [op |-> "init"]
         /\ l = 2 /\ phase = "act" /\ nbad = 0

MachineStep(e) ==
    CASE e.op = "load" -> Load(e.d, e.w[1][2])
      [] e.op \in {"add_with_carry", "sub_with_borrow", "mul", "mul_low", "mul_high", "and", "or", "xor"} -> Bin(e.op, e.d, e.s)
      [] e.op \in {"mul2", "div2", "not"} -> Un(e.op, e.d)
      [] e.op \in {"muln", "shl", "divn", "shr"} -> Shift(e.op, e.d, e.k)
      [] e.op \in {"cmp", "eq", "is_zero", "is_odd", "is_even", "num_bits", "get_bit", "to_bytes_le", "to_bytes_be",
                   "to_bits_le", "to_bits_be", "to_biguint", "to_decimal", "mod_4", "two_adic_valuation"} -> Query(e.op, e.d, e.s, e.i)
      [] e.op = "from_bits" -> FromBits(e.d, e.be, e.bits)
      [] e.op = "from_small" -> FromSmall(e.d, e.ty, e.v)
      [] e.op = "try_from" -> TryFrom(e.d, e.v)
      [] e.op = "from_str" -> FromStr(e.d, e.digits)
      [] e.op = "find_wnaf" -> Wnaf(e.d, e.w)
      [] e.op = "find_naf" -> Naf(e.d)
      [] e.op = "find_relaxed_naf" -> RelaxedNaf(e.d, e.ret)

\* find_wnaf logs its window as "win" (the field "w" holds the written registers)
Norm(e) == IF e.op = "find_wnaf" THEN [e EXCEPT !.w = e.win] ELSE e

Act == /\ phase = "act" /\ l <= Len(Rec)
       /\ LET e == Rec[l] IN
            \/ ~Has(e, "panic") /\ MachineStep(Norm(e))
            \/ /\ \/ Has(e, "panic")
                  \/ e.op = "find_relaxed_naf" /\ ~RelaxedNafOK(e.ret, regs[e.d])
                  \/ e.op = "load" /\ ~IsVal(e.w[1][2])
               /\ UNCHANGED regs
               /\ ev' = [op |-> "REJECTED"]
       /\ phase' = "cmp" /\ UNCHANGED <<l, nbad>>

Mismatches(e) == {i \in 1..Len(e.w) : regs[e.w[i][1]] # e.w[i][2] \/ ~IsVal(e.w[i][2])}
RetBad(e) == \/ ev.op = "REJECTED"
             \/ (Has(e, "ret") /\ Has(ev, "ret") /\ e.ret # ev.ret)
             \/ (Has(e, "ret") /\ ~Has(ev, "ret"))

Cmp == /\ phase = "cmp"
       /\ LET e   == Rec[l]
              bad == Mismatches(e)
          IN  IF bad = {} /\ ~RetBad(e)
              THEN UNCHANGED <<regs, nbad>>
              ELSE /\ PrintT(<<"MISMATCH", ToJson([line |-> l, event |-> e, spec_ev |-> ev,
                                   spec_regs |-> [i \in bad |-> regs[e.w[i][1]]]])>>)
                   /\ nbad' = nbad + 1
                   /\ regs' = [r \in 1..TNREG |->
                                 IF \E i \in 1..Len(e.w) : e.w[i][1] = r
                                 THEN e.w[CHOOSE i \in 1..Len(e.w) : e.w[i][1] = r][2]
                                 ELSE regs[r]] \o <<>>
       /\ phase' = "act" /\ l' = l + 1 /\ UNCHANGED ev

Done == /\ phase = "act" /\ l = Len(Rec) + 1
        /\ PrintT(<<"TRACE-DONE", ToJson([lines |-> Len(Rec), mismatches |-> nbad])>>)
        /\ l' = l + 1 /\ UNCHANGED <<regs, ev, phase, nbad>>

TNext == Act \/ Cmp \/ Done
TSpec == TInit /\ [][TNext]_tvars
Accepted == TLCGet("stats").diameter = 2 * (Len(Rec) - 1) + 2
=============================================================================
