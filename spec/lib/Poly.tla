--------------------------------- MODULE Poly ---------------------------------
(***************************************************************************)
(* Univariate polynomials over a prime field F_p and evaluation domains,     *)
(* from the definitions.  A polynomial is its canonical coefficient          *)
(* sequence (constant term first, NO trailing zero coefficient; <<>> is the  *)
(* zero polynomial), so that equality of sequences is equality of            *)
(* polynomials.  Numbers go through Num (toy integers or BigNat).            *)
(***************************************************************************)
EXTENDS Tower

\* ---- canonical forms
RECURSIVE Trim(_)
Trim(c) == IF Len(c) = 0 THEN c ELSE IF NIsZero(c[Len(c)]) THEN Trim(SubSeq(c, 1, Len(c) - 1)) ELSE c
IsPoly(p, c) == /\ \A i \in 1..Len(c) : NIsNum(c[i]) /\ NLt(c[i], p)
                /\ (Len(c) > 0 => ~NIsZero(c[Len(c)]))
PDeg(c) == Len(c) - 1                       \* -1 for the zero polynomial
Coef(c, i) == IF i + 1 <= Len(c) THEN c[i + 1] ELSE NZero      \* coefficient of X^i
MaxN(a, b) == IF a >= b THEN a ELSE b

PAdd(p, a, b)  == Trim([i \in 1..MaxN(Len(a), Len(b)) |-> FpAdd(p, Coef(a, i-1), Coef(b, i-1))] \o <<>>)
PSub(p, a, b)  == Trim([i \in 1..MaxN(Len(a), Len(b)) |-> FpSub(p, Coef(a, i-1), Coef(b, i-1))] \o <<>>)
PNeg(p, a)     == [i \in 1..Len(a) |-> FpNeg(p, a[i])] \o <<>>
PScale(p, a, f) == Trim([i \in 1..Len(a) |-> FpMul(p, a[i], f)] \o <<>>)
\* schoolbook product: coefficient of X^m is sum_{i+j=m} a_i b_j
PMul(p, a, b) ==
    IF Len(a) = 0 \/ Len(b) = 0 THEN <<>>
    ELSE [m \in 1..(Len(a) + Len(b) - 1) |->
            FoldLeft(LAMBDA acc, i : FpAdd(p, acc, FpMul(p, Coef(a, i), Coef(b, m - 1 - i))), NZero, UpTo(0, m - 1))] \o <<>>
\* X^k * a
PShift(a, k) == IF Len(a) = 0 THEN a ELSE [i \in 1..k |-> NZero] \o a
\* value at x (Horner)
PEval(p, a, x) == FoldLeft(LAMBDA acc, i : FpAdd(p, FpMul(p, acc, x), a[i]), NZero, DownTo(Len(a), 1))

\* Euclidean division a = q b + r, deg r < deg b  (b # 0): <<q, r>>
PDivMod(p, a, b) ==
    LET lbinv == FpInv(p, b[Len(b)])
        step(st, k) ==      \* st = <<q, r>>, eliminate the term of degree k + deg b of r (k descending)
            LET r == st[2]
                c == FpMul(p, Coef(r, k + PDeg(b)), lbinv)
            IN  IF NIsZero(c) THEN st
                ELSE <<PAdd(p, st[1], PShift(<<c>>, k)), PSub(p, r, PShift(PScale(p, b, c), k))>>
    IN  IF Len(a) < Len(b) THEN <<(<<>>), a>>
        ELSE FoldLeft(step, <<(<<>>), a>>, DownTo(Len(a) - Len(b), 0))

\* sparse term lists: sequences of <<degree, coefficient>>; canonical = strictly increasing degrees,
\* non-zero coefficients
IsSparse(p, t) == /\ \A i \in 1..Len(t) : ~NIsZero(t[i][2]) /\ NLt(t[i][2], p)
                  /\ \A i \in 1..(Len(t) - 1) : t[i][1] < t[i+1][1]
MaxDegOf(t) == FoldLeft(LAMBDA acc, j : MaxN(acc, t[j][1]), 0, UpTo(1, Len(t)))
SparseToDense(p, t) ==
    IF Len(t) = 0 THEN <<>>
    ELSE Trim([i \in 1..(MaxDegOf(t) + 1) |->
                 FoldLeft(LAMBDA acc, j : IF t[j][1] = i - 1 THEN FpAdd(p, acc, t[j][2]) ELSE acc, NZero, UpTo(1, Len(t)))] \o <<>>)
DenseToSparse(a) == SelectSeq([i \in 1..Len(a) |-> <<i - 1, a[i]>>] \o <<>>, LAMBDA t : ~NIsZero(t[2]))

----------------------------------------------------------------------------
(* Evaluation domains: the coset  h * <g>,  g of exact order n *)
\* order of g is exactly n (n >= 1)
HasOrder(p, g, n) == /\ FpPow(p, g, N(n)) = NOne
                     /\ \A d \in 1..(n - 1) : n % d = 0 => FpPow(p, g, N(d)) # NOne
DomElem(p, g, h, i) == FpMul(p, h, FpPow(p, g, N(i)))
DomElems(p, g, h, n) == [i \in 1..n |-> DomElem(p, g, h, i - 1)] \o <<>>
\* discrete Fourier transform as a SUM (definition): values of the polynomial at the domain elements
Dft(p, g, h, n, a) == [i \in 1..n |-> PEval(p, a, DomElem(p, g, h, i - 1))] \o <<>>
\* vanishing polynomial of the coset: X^n - h^n
VanishPoly(p, h, n) == Trim([i \in 1..(n + 1) |-> IF i = 1 THEN FpNeg(p, FpPow(p, h, N(n))) ELSE IF i = n + 1 THEN NOne ELSE NZero] \o <<>>)
VanishEval(p, h, n, tau) == FpSub(p, FpPow(p, tau, N(n)), FpPow(p, h, N(n)))
\* Lagrange basis polynomial L_i of the domain evaluated at tau:  prod_{j # i} (tau - x_j) / (x_i - x_j)
Lagrange(p, g, h, n, i, tau) ==
    FoldLeft(LAMBDA acc, j : IF j = i THEN acc
                            ELSE FpMul(p, acc, FpMul(p, FpSub(p, tau, DomElem(p, g, h, j)),
                                                     FpInv(p, FpSub(p, DomElem(p, g, h, i), DomElem(p, g, h, j))))),
             NOne, UpTo(0, n - 1))
\* the unique polynomial of degree < n with the given values on the domain (interpolation):
\* sum_i v_i L_i;  computed coefficient-wise through the inverse DFT sum
\*   c_k = n^-1 h^-k sum_i v_i g^(-i k)
Idft(p, g, h, n, v) ==
    LET ninv == FpInv(p, NMod(N(n), p))  ginv == FpInv(p, g)  hinv == FpInv(p, h) IN
    Trim([k \in 1..n |->
            FpMul(p, FpMul(p, ninv, FpPow(p, hinv, N(k - 1))),
                  FoldLeft(LAMBDA acc, i : FpAdd(p, acc, FpMul(p, v[i], FpPow(p, ginv, N((i - 1) * (k - 1))))), NZero, UpTo(1, n)))] \o <<>>)

----------------------------------------------------------------------------
(* Relations that CHARACTERISE the transforms and cost O(n) to evaluate, for sizes at which the O(n^2)     *)
(* definitions above are out of reach of TLC.  MC_Poly checks on every toy domain that they are theorems   *)
(* of the definitions (DftIdentity for every z of the field, LagrangeClosed against the product formula).  *)
\* 1 + w + ... + w^(n-1)
GeoSum(p, w, n) == IF w = NOne THEN NMod(N(n), p)
                   ELSE FpMul(p, FpSub(p, FpPow(p, w, N(n)), NOne), FpInv(p, FpSub(p, w, NOne)))
\* sum_i z^i w_i   (w a sequence, index 1 = exponent 0)
PowerSum(p, w, z) == FoldLeft(LAMBDA acc, i : FpAdd(p, FpMul(p, acc, z), w[i]), NZero, DownTo(Len(w), 1))
\* w = (v(h g^i))_{i<n}  implies, for every z:   sum_i z^i w_i = sum_j v_j h^j GeoSum(z g^j, n);
\* conversely, if w is NOT the transform of v, the two sides differ as polynomials in z of degree < n, so they
\* agree on at most n - 1 values of z
DftIdentity(p, g, h, n, v, w, z) ==
    LET st == FoldLeft(LAMBDA acc, j :        \* acc = <<sum, h^j, g^j>>
                         <<FpAdd(p, acc[1], FpMul(p, FpMul(p, v[j], acc[2]), GeoSum(p, FpMul(p, z, acc[3]), n))),
                           FpMul(p, acc[2], h), FpMul(p, acc[3], g)>>,
                       <<NZero, NOne, NOne>>, UpTo(1, Len(v)))
    IN  Len(w) = n /\ PowerSum(p, w, z) = st[1]
\* L_i(tau) over the coset h<g>: Z(tau) x_i / (n h^n (tau - x_i)) off the domain, the indicator on it
LagrangeClosed(p, g, h, n, i, tau) ==
    LET xi == DomElem(p, g, h, i)  hn == FpPow(p, h, N(n)) IN
    IF tau = xi THEN NOne
    ELSE FpMul(p, FpMul(p, FpSub(p, FpPow(p, tau, N(n)), hn), xi),
               FpInv(p, FpMul(p, FpMul(p, NMod(N(n), p), hn), FpSub(p, tau, xi))))
=============================================================================
