--------------------------------- MODULE H2C ---------------------------------
(***************************************************************************)
(* RFC 9380 hashing to fields and curves, written from the RFC's text.        *)
(*   - expand_message_xmd (section 5.3.1) over an abstract hash H with output  *)
(*     size b_in_bytes and input block size s_in_bytes, incl. the oversize-DST *)
(*     rule (section 5.3.3)                                                    *)
(*   - hash_to_field (section 5.2): L = ceil((ceil(log2 p) + k) / 8)           *)
(*   - the simplified SWU map (section 6.6.2) as a RELATION on its result      *)
(*   - sgn0 (section 4.1), isogeny maps as rational functions                  *)
(***************************************************************************)
EXTENDS Curve, HashFn

HashOf(h, bytes) == CASE h = "sha256" -> Sha256(bytes) [] h = "sha384" -> Sha384(bytes) [] h = "sha512" -> Sha512(bytes)
BIn(h) == CASE h = "sha256" -> 32 [] h = "sha384" -> 48 [] h = "sha512" -> 64
SIn(h) == CASE h = "sha256" -> 64 [] h = "sha384" -> 128 [] h = "sha512" -> 128
I2OSP(n, len) == [i \in 1..len |-> (n \div (256 ^ (len - i))) % 256] \o <<>>     \* n < 2^24
StrXor(a, b) == [i \in 1..Len(a) |-> BnToInt(BnXor(<<a[i]>>, <<b[i]>>) \o <<0>>)] \o <<>>
Ascii(str) == <<>>  \* (byte strings are passed as sequences; no string conversion needed)
LongDstPrefix == <<72, 50, 67, 45, 79, 86, 69, 82, 83, 73, 90, 69, 45, 68, 83, 84, 45>>   \* "H2C-OVERSIZE-DST-"

ExpandXmd(h, msg, dst, len) ==
    LET b == BIn(h)  s == SIn(h)
        ell == (len + b - 1) \div b
        DST == IF Len(dst) > 255 THEN HashOf(h, LongDstPrefix \o dst) ELSE dst
        dstp == DST \o I2OSP(Len(DST), 1)
        zpad == [i \in 1..s |-> 0] \o <<>>
        b0 == HashOf(h, zpad \o msg \o I2OSP(len, 2) \o <<0>> \o dstp)
        b1 == HashOf(h, b0 \o <<1>> \o dstp)
        blocks == FoldLeft(LAMBDA acc, i : Append(acc, HashOf(h, StrXor(b0, acc[Len(acc)]) \o I2OSP(i, 1) \o dstp)), <<b1>>, UpTo(2, ell))
        all == FoldLeft(LAMBDA acc, i : acc \o blocks[i], <<>>, UpTo(1, Len(blocks)))
    IN  SubSeq(all, 1, len)          \* requires ell <= 255, len <= 65535

\* hash_to_field: count elements of F_{p^m}, each from m chunks of L bytes interpreted big-endian, mod p
LBytes(p, k) == (NBitLen(p) + k + 7) \div 8
HashToField(h, p, m, k, msg, dst, count) ==
    LET L == LBytes(p, k)
        ub == ExpandXmd(h, msg, dst, count * m * L)
        coord(i, j) == NBytesLEMod(SeqReverse(SubSeq(ub, L * (j + i * m) + 1, L * (j + i * m) + L)), p)
    IN  [i \in 1..count |-> IF m = 1 THEN coord(i - 1, 0) ELSE [j \in 1..m |-> coord(i - 1, j - 1)] \o <<>>] \o <<>>

\* sgn0 of an element of level k: parity of the first non-zero coordinate over the prime field
Sgn0(F, k, x) == LET c == TFlatten(F, k, x)
                     nz == {i \in 1..Len(c) : ~NIsZero(c[i])}
                 IN  IF nz = {} THEN 0 ELSE NBit(c[CHOOSE i \in nz : \A j \in nz : i <= j], 0)

\* simplified SWU for y^2 = x^3 + A x + B (A B # 0), Z a non-square: the point (x, y) = map(u) is
\* characterised by (RFC 9380, 6.6.2):  x = x1 if g(x1) is a square else x2,  y^2 = g(x),  sgn0(y) = sgn0(u)
SswuX(C, Z, u) ==
    LET u2 == FMul(C, u, u)  zu2 == FMul(C, Z, u2)
        tv1d == FAdd(C, FMul(C, zu2, zu2), zu2)                   \* Z^2 u^4 + Z u^2
        mba == FMul(C, FNeg(C, C.b), FInv(C, C.a))                  \* -B / A
        x1 == IF tv1d = FZero(C) THEN FMul(C, C.b, FInv(C, FMul(C, Z, C.a)))
              ELSE FMul(C, mba, FAdd(C, FOne(C), FInv(C, tv1d)))
        gx1 == SWRhs(C, x1)
    IN  IF TIsSquare(C.F, C.K, gx1) THEN x1 ELSE FMul(C, zu2, x1)
SswuOK(C, Z, u, P) ==
    /\ P # Inf /\ FIsElem(C, P[1]) /\ FIsElem(C, P[2])
    /\ P[1] = SswuX(C, Z, u)
    /\ FMul(C, P[2], P[2]) = SWRhs(C, P[1])
    /\ Sgn0(C.F, C.K, P[2]) = Sgn0(C.F, C.K, u)

\* Elligator 2 (RFC 9380, 6.7.1 and the rational map of Appendix D.1) for a twisted Edwards curve C whose Montgomery
\* form is K t^2 = s^3 + J s^2 + s;  Z a non-square.  With x1 = -(J/K) / (1 + Z u^2) (or -(J/K) when the denominator
\* vanishes), g(x) = x^3 + (J/K) x^2 + x / K^2 and x2 = -x1 - J/K:
\*      x = x1, sgn0(y) = 1   if g(x1) is a square,      x = x2, sgn0(y) = 0   otherwise;      y^2 = g(x)
\* (s, t) = (x K, y K) and the Edwards point is (v, w) = (s / t, (s - 1) / (s + 1)), or (0, 1) when (s + 1) t = 0.
Ell2Data(C, J, K, Z, u) ==
    LET jk == FMul(C, J, FInv(C, K))
        k2inv == FInv(C, FMul(C, K, K))
        g(x) == FAdd(C, FAdd(C, FMul(C, x, FMul(C, x, x)), FMul(C, jk, FMul(C, x, x))), FMul(C, x, k2inv))
        den == FAdd(C, FOne(C), FMul(C, Z, FMul(C, u, u)))
        x1 == IF den = FZero(C) THEN FNeg(C, jk) ELSE FMul(C, FNeg(C, jk), FInv(C, den))
        x2 == FSub(C, FNeg(C, x1), jk)
        sq == TIsSquare(C.F, C.K, g(x1))
    IN  [x |-> IF sq THEN x1 ELSE x2, gx |-> IF sq THEN g(x1) ELSE g(x2), sgn |-> IF sq THEN 1 ELSE 0]
Ell2OK(C, J, K, Z, u, P) ==
    LET dd == Ell2Data(C, J, K, Z, u)
        s == FMul(C, dd.x, K)
    IN  /\ FIsElem(C, P[1]) /\ FIsElem(C, P[2])
        /\ IF dd.gx = FZero(C) \/ s = FNeg(C, FOne(C)) THEN P = <<FZero(C), FOne(C)>>
           ELSE /\ P[1] # FZero(C)
                /\ FMul(C, P[2], FAdd(C, s, FOne(C))) = FSub(C, s, FOne(C))
                /\ LET y == FMul(C, s, FInv(C, FMul(C, P[1], K))) IN          \* t = s / v,  y = t / K
                     FMul(C, y, y) = dd.gx /\ Sgn0(C.F, C.K, y) = dd.sgn

\* rational isogeny map: coefficient lists, lowest degree first
PolyEvalF(C, coeffs, x) == FoldLeft(LAMBDA acc, i : FAdd(C, FMul(C, acc, x), coeffs[i]), FZero(C), DownTo(Len(coeffs), 1))
IsoApply(C, iso, Q) ==
    IF Q = Inf THEN Inf
    ELSE <<FMul(C, PolyEvalF(C, iso.xn, Q[1]), FInv(C, PolyEvalF(C, iso.xd, Q[1]))),
           FMul(C, Q[2], FMul(C, PolyEvalF(C, iso.yn, Q[1]), FInv(C, PolyEvalF(C, iso.yd, Q[1]))))>>
=============================================================================
