--------------------------- MODULE ContainerCodec ---------------------------
(***************************************************************************)
(* ark-serialize encodings of the composite types (C18), as total functions. *)
(* A type is a record: [k |-> "int", w |-> bytes] (u8..u64, i8..i64, usize:  *)
(* the abstract value of an integer IS its little-endian two's-complement    *)
(* byte string of that width), [k |-> "bool"], [k |-> "opt", t], "vec"        *)
(* (also VecDeque, LinkedList, slices), "set" (BTreeSet: sorted, no           *)
(* duplicates), "map" (BTreeMap: key-sorted pairs), "tup" (ts), "arr" (t, n), *)
(* "str" (UTF-8 bytes), "big" (BigUint as its little-endian byte vector),     *)
(* "ptr" (Rc / Arc / Cow / mode-pinning wrappers: transparent).               *)
(* Sequences carry a u64 little-endian length prefix.  Decoding never         *)
(* panics: truncated input, invalid booleans / UTF-8 and length prefixes      *)
(* larger than the remaining input are errors.                                *)
(***************************************************************************)
EXTENDS Codec, FiniteSets, TLC

CONSTANT CurveC       \* toy curve whose points are the mode-dependent leaf type "pt"

Ok(v, n) == [st |-> "ok", v |-> v, n |-> n]
\* u64 little-endian of a small natural
LenPrefix(n) == [i \in 1..8 |-> IF i > 3 THEN 0 ELSE (n \div (256 ^ (i - 1))) % 256] \o <<>>     \* n < 2^24
\* value of an 8-byte prefix, or -1 when it exceeds anything a finite input can hold
PrefixVal(bs) == IF \E i \in 4..8 : bs[i] # 0 THEN -1 ELSE bs[1] + 256 * bs[2] + 65536 * bs[3]

\* lexicographic order on encodings of integers is not numeric; sets / maps are ordered by the
\* VALUE order of their element type: for the toy element types used (u8, u16 as LE bytes) compare numerically
LEVal(b) == FoldLeft(LAMBDA acc, i : acc * 256 + b[i], 0, [j \in 1..Len(b) |-> Len(b) + 1 - j] \o <<>>)

\* UTF-8 validity of a byte string restricted to the cases that occur in the models:
\* ASCII, and two-byte sequences 110xxxxx 10xxxxxx (C2..DF lead bytes)
RECURSIVE Utf8OK(_)
Utf8OK(s) == IF Len(s) = 0 THEN TRUE
             ELSE IF s[1] < 128 THEN Utf8OK(Tail(s))
             ELSE IF s[1] >= 194 /\ s[1] <= 223 /\ Len(s) >= 2 /\ s[2] >= 128 /\ s[2] <= 191 THEN Utf8OK(SubSeq(s, 3, Len(s)))
             ELSE FALSE

RECURSIVE StripZeros(_)
StripZeros(b) == IF Len(b) > 0 /\ b[Len(b)] = 0 THEN StripZeros(SubSeq(b, 1, Len(b) - 1)) ELSE b
BigNorm(b) == IF StripZeros(b) = <<>> THEN <<0>> ELSE StripZeros(b)
RECURSIVE Enc(_, _, _), Dec(_, _, _), DecMany(_, _, _, _)
EncAll(T, vs, cm) == FoldLeft(LAMBDA acc, i : acc \o Enc(T, vs[i], cm), <<>>, [j \in 1..Len(vs) |-> j] \o <<>>)
Enc(T, v, cm) ==       \* cm: the ambient mode, "c" (compressed) or "u"
    CASE T.k = "int" -> v
      [] T.k = "bool" -> IF v THEN <<1>> ELSE <<0>>
      [] T.k = "opt" -> IF Len(v) = 0 THEN <<0>> ELSE <<1>> \o Enc(T.t, v[1], cm)
      [] T.k \in {"vec", "set"} -> LenPrefix(Len(v)) \o EncAll(T.t, v, cm)
      [] T.k = "map" -> LenPrefix(Len(v)) \o FoldLeft(LAMBDA acc, i : acc \o Enc(T.kt, v[i][1], cm) \o Enc(T.vt, v[i][2], cm), <<>>, [j \in 1..Len(v) |-> j] \o <<>>)
      [] T.k = "tup" -> FoldLeft(LAMBDA acc, i : acc \o Enc(T.ts[i], v[i], cm), <<>>, [j \in 1..Len(T.ts) |-> j] \o <<>>)
      [] T.k = "arr" -> EncAll(T.t, v, cm)
      [] T.k \in {"str", "big"} -> LenPrefix(Len(v)) \o v
      [] T.k = "ptr" -> Enc(T.t, v, cm)
      [] T.k = "pin" -> Enc(T.t, v, T.m)                        \* mode-pinning wrapper
      [] T.k = "pt"  -> EncPoint(CurveC, v, cm = "c")           \* a curve point: the only mode-dependent leaf
Size(T, v, cm) == Len(Enc(T, v, cm))

\* decode cnt consecutive values of type T
DecMany(T, bs, cnt, cm) ==
    FoldLeft(LAMBDA acc, i : IF acc.st = "err" THEN acc
                             ELSE LET r == Dec(T, SubSeq(bs, acc.n + 1, Len(bs)), cm) IN
                                  IF r.st = "err" THEN Err ELSE Ok(Append(acc.v, r.v), acc.n + r.n),
             Ok(<<>>, 0), [j \in 1..cnt |-> j] \o <<>>)
SortDedup(vs) == LET S == {vs[i] : i \in 1..Len(vs)} IN SortSeq(SetToSeq(S), LAMBDA a, b : LEVal(a) < LEVal(b))
Dec(T, bs, cm) ==
    CASE T.k = "int" -> IF Len(bs) < T.w THEN Err ELSE Ok(SubSeq(bs, 1, T.w), T.w)
      [] T.k = "bool" -> IF Len(bs) < 1 THEN Err ELSE IF bs[1] = 0 THEN Ok(FALSE, 1) ELSE IF bs[1] = 1 THEN Ok(TRUE, 1) ELSE Err
      [] T.k = "opt" -> IF Len(bs) < 1 \/ bs[1] > 1 THEN Err
                        ELSE IF bs[1] = 0 THEN Ok(<<>>, 1)
                        ELSE LET r == Dec(T.t, Tail(bs), cm) IN IF r.st = "err" THEN Err ELSE Ok(<<r.v>>, r.n + 1)
      [] T.k \in {"vec", "set", "str", "big", "map"} ->
            IF Len(bs) < 8 THEN Err
            ELSE LET cnt == PrefixVal(bs)  rest == SubSeq(bs, 9, Len(bs)) IN
                 IF cnt < 0 \/ cnt > Len(rest) THEN Err          \* more elements than bytes left (every element type of the zoo takes >= 1 byte)
                 ELSE IF T.k \in {"str", "big"}
                      THEN IF cnt > Len(rest) THEN Err
                           ELSE IF T.k = "str" /\ ~Utf8OK(SubSeq(rest, 1, cnt)) THEN Err
                           ELSE IF T.k = "big" THEN Ok(BigNorm(SubSeq(rest, 1, cnt)), 8 + cnt)     \* the VALUE (a number), as its minimal byte string
                           ELSE Ok(SubSeq(rest, 1, cnt), 8 + cnt)
                 ELSE IF T.k = "map"
                      THEN LET r == DecMany([k |-> "tup", ts |-> <<T.kt, T.vt>>], rest, cnt, cm) IN
                           IF r.st = "err" THEN Err
                           ELSE \* later entries with an equal key replace earlier ones; result sorted by key
                                LET keys == {r.v[i][1] : i \in 1..Len(r.v)}
                                    last(kk) == r.v[CHOOSE i \in 1..Len(r.v) : r.v[i][1] = kk /\ \A j \in (i+1)..Len(r.v) : r.v[j][1] # kk]
                                IN  Ok([i \in 1..Cardinality(keys) |-> last(SortSeq(SetToSeq(keys), LAMBDA a, b : LEVal(a) < LEVal(b))[i])] \o <<>>, 8 + r.n)
                 ELSE LET r == DecMany(T.t, rest, cnt, cm) IN
                      IF r.st = "err" THEN Err
                      ELSE Ok(IF T.k = "set" THEN SortDedup(r.v) ELSE r.v, 8 + r.n)
      [] T.k = "tup" ->
            LET r == FoldLeft(LAMBDA acc, i : IF acc.st = "err" THEN acc
                                              ELSE LET q == Dec(T.ts[i], SubSeq(bs, acc.n + 1, Len(bs)), cm) IN
                                                   IF q.st = "err" THEN Err ELSE Ok(Append(acc.v, q.v), acc.n + q.n),
                              Ok(<<>>, 0), [j \in 1..Len(T.ts) |-> j] \o <<>>) IN r
      [] T.k = "arr" -> DecMany(T.t, bs, T.n, cm)
      [] T.k = "ptr" -> Dec(T.t, bs, cm)
      [] T.k = "pin" -> Dec(T.t, bs, T.m)
      [] T.k = "pt" ->          \* validated decoding of a point of the toy curve (by enumeration)
            LET c == cm = "c"  n == PointSize(CurveC, c) IN
            IF Len(bs) < n THEN Err
            ELSE LET b == SubSeq(bs, 1, n)  oc == DecPointOutcome(CurveC, b, c, TRUE) IN
                 IF oc = "err" THEN Err
                 ELSE LET cand == {Q \in AllPoints(CurveC) : PointMatches(CurveC, b, c, Q)} IN
                      IF cand = {} THEN Err                         \* off-curve coordinates: rejected by validation
                      ELSE LET Q == CHOOSE Q \in cand : TRUE IN
                           IF Q = Inf \/ Valid(CurveC, Q) THEN Ok(Q, n) ELSE Err
=============================================================================
