-------------------------------- MODULE Codec --------------------------------
(***************************************************************************)
(* The canonical byte encodings of field elements and curve points, as       *)
(* FUNCTIONS between abstract values and byte sequences.                     *)
(*                                                                           *)
(* Field element of F_p with f flag bits: n = ceil((bits(p) + f) / 8) bytes,  *)
(* the integer in little-endian order, flags in the top bits of the last     *)
(* byte.  Extension elements: coordinates in order, the flags on the LAST    *)
(* coordinate.  Short Weierstrass points: 2 flag bits (bit 7 = "y is the     *)
(* larger of {y, -y}", bit 6 = infinity; both = invalid); compressed = x     *)
(* with flags, uncompressed = x, then y with flags.  Twisted Edwards: 1 flag *)
(* bit (bit 7 = "x is the larger of {x, -x}"); compressed = y with flag,     *)
(* uncompressed = x then y without flags.  Decode is TOTAL: every byte       *)
(* string is mapped to an error or to a value and the number of bytes read.  *)
(***************************************************************************)
EXTENDS Curve

CeilDiv8(n) == (n + 7) \div 8
PBits(F) == NBitLen(F.p)
\* size in bytes of an element of level k carrying f flag bits
RECURSIVE FieldSize(_, _, _)
FieldSize(F, k, f) == IF k = 0 THEN CeilDiv8(PBits(F) + f)
                      ELSE (Deg(F, k) - 1) * FieldSize(F, k-1, 0) + FieldSize(F, k-1, f)

\* s with its last byte OR-ed with mask (mask only has bits above the value's bits)
OrLast(s, mask) == [i \in 1..Len(s) |-> IF i = Len(s) THEN s[i] + mask ELSE s[i]] \o <<>>
RECURSIVE EncField(_, _, _, _, _)
EncField(F, k, a, f, mask) ==
    IF k = 0 THEN OrLast(NToBytesLE(a, CeilDiv8(PBits(F) + f)), mask)
    ELSE LET d == Deg(F, k) IN
         FoldLeft(LAMBDA acc, i : acc \o EncField(F, k-1, a[i], IF i = d THEN f ELSE 0, IF i = d THEN mask ELSE 0), <<>>, UpTo(1, d))

Err == [st |-> "err"]
\* flags found in the top bits of a byte, per flag kind: <<ok, flagname, mask to clear>>
FlagsOf(kind, byte) ==
    LET b7 == byte \div 128  b6 == (byte \div 64) % 2 IN
    CASE kind = "none" -> <<TRUE, "none", 0>>
      [] kind = "sw" -> IF b7 = 1 /\ b6 = 1 THEN <<FALSE, "bad", 0>>
                        ELSE IF b6 = 1 THEN <<TRUE, "inf", 64>>
                        ELSE IF b7 = 1 THEN <<TRUE, "neg", 128>> ELSE <<TRUE, "pos", 0>>
      [] kind = "te" -> IF b7 = 1 THEN <<TRUE, "neg", 128>> ELSE <<TRUE, "pos", 0>>
FlagBits(kind) == CASE kind = "none" -> 0 [] kind = "sw" -> 2 [] kind = "te" -> 1

\* decode an element of level k from the front of bs: [st, v, flag, n]
RECURSIVE DecField(_, _, _, _)
DecField(F, k, bs, kind) ==
    IF k = 0
    THEN LET n == CeilDiv8(PBits(F) + FlagBits(kind)) IN
         IF Len(bs) < n THEN Err
         ELSE LET fl == FlagsOf(kind, bs[n]) IN
              IF ~fl[1] THEN Err
              ELSE LET v == NFromBytesLE(OrLast(SubSeq(bs, 1, n), 0 - fl[3])) IN
                   IF NLt(v, F.p) THEN [st |-> "ok", v |-> v, flag |-> fl[2], n |-> n] ELSE Err
    ELSE LET d == Deg(F, k)
             step(acc, i) ==       \* acc = [st, vs, flag, n]
                 IF acc.st = "err" THEN acc
                 ELSE LET r == DecField(F, k-1, SubSeq(bs, acc.n + 1, Len(bs)), IF i = d THEN kind ELSE "none") IN
                      IF r.st = "err" THEN Err
                      ELSE [st |-> "ok", vs |-> Append(acc.vs, r.v), flag |-> r.flag, n |-> acc.n + r.n]
             res == FoldLeft(step, [st |-> "ok", vs |-> <<>>, flag |-> "none", n |-> 0], UpTo(1, d))
         IN  IF res.st = "err" THEN Err ELSE [st |-> "ok", v |-> res.vs, flag |-> res.flag, n |-> res.n]

----------------------------------------------------------------------------
(* curve points *)
FK(C) == C.K
\* "u is the larger of {u, -u}" in the field's order (prime: integer order; extension: lexicographic,
\* highest coefficient first)
IsLarger(C, u) == TCmp(C.F, C.K, u, FNeg(C, u)) > 0
PointSize(C, compressed) ==
    IF C.kind = "sw" THEN (IF compressed THEN FieldSize(C.F, C.K, 2) ELSE FieldSize(C.F, C.K, 0) + FieldSize(C.F, C.K, 2))
    ELSE (IF compressed THEN FieldSize(C.F, C.K, 1) ELSE 2 * FieldSize(C.F, C.K, 0))
EncPoint(C, P, compressed) ==
    IF C.kind = "sw"
    THEN LET x == IF P = Inf THEN FZero(C) ELSE P[1]
             y == IF P = Inf THEN FZero(C) ELSE P[2]
             mask == IF P = Inf THEN 64 ELSE IF IsLarger(C, y) THEN 128 ELSE 0
         IN  IF compressed THEN EncField(C.F, C.K, x, 2, mask)
             ELSE EncField(C.F, C.K, x, 0, 0) \o EncField(C.F, C.K, y, 2, mask)
    ELSE IF compressed THEN EncField(C.F, C.K, P[2], 1, IF IsLarger(C, P[1]) THEN 128 ELSE 0)
         ELSE EncField(C.F, C.K, P[1], 0, 0) \o EncField(C.F, C.K, P[2], 0, 0)

\* the point a decoder must produce from already decoded coordinates:
\*   DecodedOK(C, bs, compressed, validate, P) <=> "Ok(P)" is a correct outcome for input bs
\* written as a RELATION on the returned point so that no square root has to be computed:
\* the missing coordinate must satisfy the curve equation and carry the encoded sign.
Valid(C, P) == OnCurve(C, P) /\ PMul(C, C.r, P) = Identity(C)
SWRhsIsSquare(C, x) == TIsSquare(C.F, C.K, SWRhs(C, x))
TEx2(C, y) == LET y2 == FMul(C, y, y) IN <<FSub(C, FOne(C), y2), FSub(C, C.a, FMul(C, C.d, y2))>>   \* num, den
TEHasX(C, y) == LET nd == TEx2(C, y) IN nd[2] # FZero(C) /\ TIsSquare(C.F, C.K, FMul(C, nd[1], FInv(C, nd[2])))

\* outcome class for input bs: "err" or "ok"; and when "ok", the predicate the point must satisfy
DecPointOutcome(C, bs, compressed, validate) ==
    IF C.kind = "sw"
    THEN IF compressed
         THEN LET r == DecField(C.F, C.K, bs, "sw") IN
              IF r.st = "err" THEN "err"
              ELSE IF r.flag = "inf" THEN "ok"
              ELSE IF ~SWRhsIsSquare(C, r.v) THEN "err" ELSE "ok?"      \* still subject to validation
         ELSE LET rx == DecField(C.F, C.K, bs, "none") IN
              IF rx.st = "err" THEN "err"
              ELSE LET ry == DecField(C.F, C.K, SubSeq(bs, rx.n + 1, Len(bs)), "sw") IN
                   IF ry.st = "err" THEN "err" ELSE IF ry.flag = "inf" THEN "ok" ELSE "ok?"
    ELSE IF compressed
         THEN LET r == DecField(C.F, C.K, bs, "te") IN
              IF r.st = "err" THEN "err" ELSE IF ~TEHasX(C, r.v) THEN "err" ELSE "ok?"
         ELSE LET rx == DecField(C.F, C.K, bs, "none") IN
              IF rx.st = "err" THEN "err"
              ELSE LET ry == DecField(C.F, C.K, SubSeq(bs, rx.n + 1, Len(bs)), "none") IN
                   IF ry.st = "err" THEN "err" ELSE "ok?"

\* is P the point denoted by bs (given that the outcome class is ok / ok?)
PointMatches(C, bs, compressed, P) ==
    IF C.kind = "sw"
    THEN IF compressed
         THEN LET r == DecField(C.F, C.K, bs, "sw") IN
              IF r.flag = "inf" THEN P = Inf
              ELSE /\ P # Inf /\ P[1] = r.v /\ FMul(C, P[2], P[2]) = SWRhs(C, r.v)
                   /\ (P[2] = FNeg(C, P[2]) \/ (IsLarger(C, P[2]) <=> r.flag = "neg"))
         ELSE LET rx == DecField(C.F, C.K, bs, "none")
                  ry == DecField(C.F, C.K, SubSeq(bs, rx.n + 1, Len(bs)), "sw")
              IN  IF ry.flag = "inf" THEN P = Inf ELSE P = <<rx.v, ry.v>>
    ELSE IF compressed
         THEN LET r == DecField(C.F, C.K, bs, "te")  nd == TEx2(C, r.v) IN
              /\ P[2] = r.v /\ FMul(C, FMul(C, P[1], P[1]), nd[2]) = nd[1]
              /\ (P[1] = FNeg(C, P[1]) \/ (IsLarger(C, P[1]) <=> r.flag = "neg"))
         ELSE LET rx == DecField(C.F, C.K, bs, "none")
                  ry == DecField(C.F, C.K, SubSeq(bs, rx.n + 1, Len(bs)), "none")
              IN  P = <<rx.v, ry.v>>
=============================================================================
