-------------------------------- MODULE Curve --------------------------------
(***************************************************************************)
(* Elliptic curves over a tower field, from the textbook definitions.       *)
(* A curve is a record                                                       *)
(*   [kind |-> "sw", F, K, a, b, r, h]      y^2 = x^3 + a x + b              *)
(*   [kind |-> "te", F, K, a, d, r, h]      a x^2 + y^2 = 1 + d x^2 y^2      *)
(* (F a tower, K the level of the base field of the curve, r the order of    *)
(* the prime-order subgroup and h the cofactor, both numbers).               *)
(* A point is Inf = <<>> (short Weierstrass identity) or a pair <<x, y>>; the *)
(* identity of a twisted Edwards curve is the ordinary point <<0, 1>>.       *)
(* Nothing here is taken from the implementation: affine chord-and-tangent   *)
(* and Edwards addition with every exceptional case, k.P by double-and-add   *)
(* on THIS law.                                                              *)
(***************************************************************************)
EXTENDS Tower

Inf == <<>>      \* the identity of a short Weierstrass curve (a tuple, so that it compares with pairs)
FAdd(C, x, y) == TAdd(C.F, C.K, x, y)
FSub(C, x, y) == TSub(C.F, C.K, x, y)
FMul(C, x, y) == TMul(C.F, C.K, x, y)
FNeg(C, x)    == TNeg(C.F, C.K, x)
FInv(C, x)    == TInv(C.F, C.K, x)
FZero(C)      == TZero(C.F, C.K)
FOne(C)       == TOne(C.F, C.K)
FInt(C, n)    == TFromPrime(C.F, C.K, NMod(N(n), C.F.p))
FIsElem(C, x) == TIsElem(C.F, C.K, x)

Identity(C) == IF C.kind = "sw" THEN Inf ELSE <<FZero(C), FOne(C)>>
IsIdentity(C, P) == P = Identity(C)

\* right-hand sides / curve equations
SWRhs(C, x) == FAdd(C, FAdd(C, FMul(C, x, FMul(C, x, x)), FMul(C, C.a, x)), C.b)
OnCurve(C, P) ==
    \* (IF rather than \/: inside an action TLC explores both sides of a disjunction)
    IF C.kind = "sw"
    THEN IF P = Inf THEN TRUE
         ELSE /\ FIsElem(C, P[1]) /\ FIsElem(C, P[2])
              /\ FMul(C, P[2], P[2]) = SWRhs(C, P[1])
    ELSE /\ FIsElem(C, P[1]) /\ FIsElem(C, P[2])
         /\ LET x2 == FMul(C, P[1], P[1])  y2 == FMul(C, P[2], P[2])
            IN  FAdd(C, FMul(C, C.a, x2), y2) = FAdd(C, FOne(C), FMul(C, C.d, FMul(C, x2, y2)))

PNeg(C, P) == IF C.kind = "sw"
              THEN (IF P = Inf THEN Inf ELSE <<P[1], FNeg(C, P[2])>>)
              ELSE <<FNeg(C, P[1]), P[2]>>

\* doubling on a short Weierstrass curve: tangent, or O for a point of order two
SWDbl(C, P) ==
    IF P = Inf \/ P[2] = FZero(C) THEN Inf
    ELSE LET x == P[1]  y == P[2]
             lam == FMul(C, FAdd(C, FMul(C, FInt(C, 3), FMul(C, x, x)), C.a), FInv(C, FAdd(C, y, y)))
             x3 == FSub(C, FMul(C, lam, lam), FAdd(C, x, x))
         IN  <<x3, FSub(C, FMul(C, lam, FSub(C, x, x3)), y)>>
SWAdd(C, P, Q) ==
    IF P = Inf THEN Q
    ELSE IF Q = Inf THEN P
    ELSE IF P[1] = Q[1]
         THEN (IF P[2] = Q[2] THEN SWDbl(C, P) ELSE Inf)          \* equal / opposite points
    ELSE LET lam == FMul(C, FSub(C, Q[2], P[2]), FInv(C, FSub(C, Q[1], P[1])))
             x3 == FSub(C, FSub(C, FMul(C, lam, lam), P[1]), Q[1])
         IN  <<x3, FSub(C, FMul(C, lam, FSub(C, P[1], x3)), P[2])>>

\* twisted Edwards addition; TEDefined says whether the denominators are invertible (always,
\* when a is a square and d is not: the law is then complete)
TEDen(C, P, Q) == FMul(C, C.d, FMul(C, FMul(C, P[1], Q[1]), FMul(C, P[2], Q[2])))
TEDefined(C, P, Q) == LET t == TEDen(C, P, Q) IN t # FOne(C) /\ t # FNeg(C, FOne(C))
TEAdd(C, P, Q) ==
    LET t == TEDen(C, P, Q)
        x3 == FMul(C, FAdd(C, FMul(C, P[1], Q[2]), FMul(C, P[2], Q[1])), FInv(C, FAdd(C, FOne(C), t)))
        y3 == FMul(C, FSub(C, FMul(C, P[2], Q[2]), FMul(C, C.a, FMul(C, P[1], Q[1]))), FInv(C, FSub(C, FOne(C), t)))
    IN  <<x3, y3>>

PAdd(C, P, Q) == IF C.kind = "sw" THEN SWAdd(C, P, Q) ELSE TEAdd(C, P, Q)
PDbl(C, P)    == PAdd(C, P, P)
PSub(C, P, Q) == PAdd(C, P, PNeg(C, Q))

\* k.P for a number k >= 0: double-and-add from the top bit (a fold: no deep recursion)
PMul(C, k, P) ==
    FoldLeft(LAMBDA acc, i : LET d == PDbl(C, acc) IN IF NBit(k, i) = 1 THEN PAdd(C, d, P) ELSE d,
             Identity(C), DownTo(NBitLen(k) - 1, 0))

InSubgroup(C, P) == OnCurve(C, P) /\ PMul(C, C.r, P) = Identity(C)

\* sum of a sequence of points
PSum(C, Ps) == FoldLeft(LAMBDA acc, i : PAdd(C, acc, Ps[i]), Identity(C), UpTo(1, Len(Ps)))

----------------------------------------------------------------------------
(* Coordinate systems of the implementation: abstraction functions and representation invariants *)
\* Jacobian (X, Y, Z) |-> (X/Z^2, Y/Z^3), Z = 0 |-> O
JacToAffine(C, J) ==
    IF J[3] = FZero(C) THEN Inf
    ELSE LET zi == FInv(C, J[3])  zi2 == FMul(C, zi, zi)
         IN  <<FMul(C, J[1], zi2), FMul(C, J[2], FMul(C, zi2, zi))>>
\* extended twisted Edwards (X, Y, T, Z) |-> (X/Z, Y/Z) with T Z = X Y, Z # 0
ExtToAffine(C, E) == LET zi == FInv(C, E[4]) IN <<FMul(C, E[1], zi), FMul(C, E[2], zi)>>
ExtInvariant(C, E) == E[4] # FZero(C) /\ FMul(C, E[3], E[4]) = FMul(C, E[1], E[2])

----------------------------------------------------------------------------
(* Toy-size helpers: all points by brute force *)
AllPoints(C) ==
    LET E == TElems(C.F, C.K) IN
    (IF C.kind = "sw" THEN {Inf} ELSE {}) \cup {P \in E \X E : OnCurve(C, P)}

\* coordinates recovered from the other one (both solutions, "smaller" first in the field's order)
\* short Weierstrass: ys with y^2 = rhs(x); twisted Edwards: xs with x^2 = (1 - y^2)/(a - d y^2)
LexLe(C, u, v) == TCmp(C.F, C.K, u, v) <= 0
=============================================================================
