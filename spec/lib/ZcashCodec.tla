----------------------------- MODULE ZcashCodec -----------------------------
(***************************************************************************)
(* The serialization format that curves/bls12_381 substitutes for the        *)
(* library's own (the "ZCash" / IETF pairing-friendly-curves format):        *)
(*   - base-field elements are 48 bytes, BIG-endian; an F_{p^2} element is   *)
(*     c1 followed by c0;                                                    *)
(*   - three flag bits in the FIRST byte: 0x80 compressed, 0x40 infinity,    *)
(*     0x20 "y is the lexicographically larger of {y, -y}" (only meaningful  *)
(*     for compressed finite points, and an error anywhere else);            *)
(*   - compressed = x with flags; uncompressed = x then y, flags on x;       *)
(*   - infinity is all zero bytes apart from the flags.                      *)
(* Decoding is a total function, like Codec's.                               *)
(***************************************************************************)
EXTENDS Codec

ZN(C) == CeilDiv8(PBits(C.F))                      \* 48
ZFp(C, a) == SeqReverse(NToBytesLE(a, ZN(C)))
\* coordinates: highest tower coefficient first
RECURSIVE ZElem(_, _, _)
ZElem(C, k, a) == IF k = 0 THEN ZFp(C, a)
                  ELSE FoldLeft(LAMBDA acc, i : acc \o ZElem(C, k - 1, a[i]), <<>>, DownTo(Deg(C.F, k), 1))
ZElemSize(C) == ZN(C) * TExtDeg(C.F, C.K)
ZPointSize(C, compressed) == IF compressed THEN ZElemSize(C) ELSE 2 * ZElemSize(C)
OrFirst(s, mask) == [i \in 1..Len(s) |-> IF i = 1 THEN s[i] + mask ELSE s[i]] \o <<>>
Zeros(n) == [i \in 1..n |-> 0] \o <<>>

ZEncPoint(C, P, compressed) ==
    LET inf == P = Inf
        flags == (IF compressed THEN 128 ELSE 0) + (IF inf THEN 64 ELSE 0)
                 + (IF compressed /\ ~inf /\ IsLarger(C, P[2]) THEN 32 ELSE 0)
        xb == IF inf THEN Zeros(ZElemSize(C)) ELSE ZElem(C, C.K, P[1])
        yb == IF inf THEN Zeros(ZElemSize(C)) ELSE ZElem(C, C.K, P[2])
    IN  OrFirst(IF compressed THEN xb ELSE xb \o yb, flags)

\* decode one base-field element from 48 big-endian bytes: <<ok, value>>
ZDecFp(C, bs) == LET v == NFromBytesLE(SeqReverse(bs)) IN <<NLt(v, C.F.p), v>>
\* decode a coordinate of level k from the front of bs: <<ok, value>>
RECURSIVE ZDecElem(_, _, _)
ZDecElem(C, k, bs) ==
    IF k = 0 THEN ZDecFp(C, SubSeq(bs, 1, ZN(C)))
    ELSE LET d == Deg(C.F, k)
             w == ZN(C) * TExtDeg(C.F, k - 1)
             parts == [i \in 1..d |-> ZDecElem(C, k - 1, SubSeq(bs, (d - i) * w + 1, (d - i + 1) * w))] \o <<>>      \* part i = coefficient i
         IN  <<\A i \in 1..d : parts[i][1], [i \in 1..d |-> parts[i][2]] \o <<>> >>

\* [st |-> "err"] | [st |-> "inf"] | [st |-> "x", x, sort]  (compressed)  | [st |-> "xy", x, y]  (uncompressed)
ZDec(C, bs, compressed) ==
    LET n == ZPointSize(C, compressed)  es == ZElemSize(C) IN
    IF Len(bs) < n THEN [st |-> "err"]
    ELSE LET b0 == bs[1]
             c == b0 >= 128  i == (b0 \div 64) % 2 = 1  s == (b0 \div 32) % 2 = 1
             body == OrFirst(SubSeq(bs, 1, n), 0 - (b0 - (b0 % 32)))           \* flags cleared
         IN  IF s /\ (~c \/ i) THEN [st |-> "err"]
             ELSE IF c # compressed THEN [st |-> "err"]
             ELSE IF i THEN (IF body = Zeros(n) THEN [st |-> "inf"] ELSE [st |-> "err"])
             ELSE LET x == ZDecElem(C, C.K, SubSeq(body, 1, es)) IN
                  IF ~x[1] THEN [st |-> "err"]
                  ELSE IF compressed THEN [st |-> "x", x |-> x[2], sort |-> s]
                  ELSE LET y == ZDecElem(C, C.K, SubSeq(body, es + 1, 2 * es)) IN
                       IF ~y[1] THEN [st |-> "err"] ELSE [st |-> "xy", x |-> x[2], y |-> y[2]]

\* the same three-way classification as Codec.DecPointOutcome
ZDecPointOutcome(C, bs, compressed) ==
    LET r == ZDec(C, bs, compressed) IN
    IF r.st = "err" THEN "err" ELSE IF r.st = "inf" THEN "ok"
    ELSE IF r.st = "x" /\ ~SWRhsIsSquare(C, r.x) THEN "err" ELSE "ok?"
ZPointMatches(C, bs, compressed, P) ==
    LET r == ZDec(C, bs, compressed) IN
    IF r.st = "inf" THEN P = Inf
    ELSE IF r.st = "x" THEN /\ P # Inf /\ P[1] = r.x /\ FMul(C, P[2], P[2]) = SWRhs(C, r.x)
                            /\ (P[2] = FNeg(C, P[2]) \/ (IsLarger(C, P[2]) <=> r.sort))
    ELSE P = <<r.x, r.y>>
=============================================================================
