------------------------------- MODULE BigNat -------------------------------
(***************************************************************************)
(* Arbitrary-precision naturals for TLC (whose integers are 32 bit).       *)
(*                                                                         *)
(* A BigNat is a little-endian sequence of base-256 digits without a       *)
(* trailing (= most significant) zero digit; <<>> is 0.  This is also the  *)
(* native carrier of every byte-level (serialization) property and the    *)
(* format in which the Rust harness logs full-size numbers (JSON array of  *)
(* bytes).                                                                 *)
(*                                                                         *)
(* The definitions below are NORMATIVE and executable.  spec/java/BigNat   *)
(* .java overrides the operators whose names do not end in "Def" with      *)
(* java.math.BigInteger for speed; MC_BigNatSelfTest checks Op = OpDef on  *)
(* a boundary set and random operands, so the overrides are accelerators   *)
(* and not oracles.                                                        *)
(***************************************************************************)
EXTENDS Naturals, Integers, Sequences

BnB == 256

IsBigNat(a) == /\ a \in Seq(0..255)
               /\ (Len(a) > 0 => a[Len(a)] # 0)

RECURSIVE NormDef(_)
NormDef(s) == IF Len(s) = 0 THEN s
              ELSE IF s[Len(s)] = 0 THEN NormDef(SubSeq(s, 1, Len(s)-1)) ELSE s

RECURSIVE FromIntDef(_)
FromIntDef(n) == IF n = 0 THEN <<>> ELSE <<n % BnB>> \o FromIntDef(n \div BnB)

RECURSIVE ToIntDef(_)
\* only meaningful when the value fits a TLC integer
ToIntDef(a) == IF Len(a) = 0 THEN 0 ELSE a[1] + BnB * ToIntDef(Tail(a))

BnDig(a, i) == IF i <= Len(a) THEN a[i] ELSE 0
BnMaxI(x, y) == IF x >= y THEN x ELSE y

RECURSIVE AddAux(_, _, _, _)
AddAux(a, b, i, c) ==
    IF i > BnMaxI(Len(a), Len(b)) THEN (IF c = 0 THEN <<>> ELSE <<c>>)
    ELSE LET s == BnDig(a, i) + BnDig(b, i) + c
         IN  <<s % BnB>> \o AddAux(a, b, i+1, s \div BnB)
AddDef(a, b) == AddAux(a, b, 1, 0)

RECURSIVE CmpAux(_, _, _)
CmpAux(a, b, i) == IF i = 0 THEN 0
                   ELSE IF a[i] < b[i] THEN -1
                   ELSE IF a[i] > b[i] THEN 1
                   ELSE CmpAux(a, b, i-1)
CmpDef(a, b) == IF Len(a) < Len(b) THEN -1
                ELSE IF Len(a) > Len(b) THEN 1
                ELSE CmpAux(a, b, Len(a))

RECURSIVE SubAux(_, _, _, _)
SubAux(a, b, i, br) ==
    IF i > Len(a) THEN <<>>
    ELSE LET d == BnDig(a, i) - BnDig(b, i) - br
         IN  IF d < 0 THEN <<d + BnB>> \o SubAux(a, b, i+1, 1)
                      ELSE <<d>> \o SubAux(a, b, i+1, 0)
\* truncated subtraction ("monus"): a - b when a >= b, 0 otherwise
SubDef(a, b) == IF CmpDef(a, b) <= 0 THEN <<>> ELSE NormDef(SubAux(a, b, 1, 0))

RECURSIVE MulDigAux(_, _, _, _)
MulDigAux(a, d, i, c) ==
    IF i > Len(a) THEN (IF c = 0 THEN <<>> ELSE <<c>>)
    ELSE LET s == a[i] * d + c IN <<s % BnB>> \o MulDigAux(a, d, i+1, s \div BnB)
RECURSIVE MulAux(_, _, _)
MulAux(a, b, j) ==
    IF j > Len(b) THEN <<>>
    ELSE AddDef(NormDef(MulDigAux(a, b[j], 1, 0)),
                LET r == MulAux(a, b, j+1) IN IF Len(r) = 0 THEN r ELSE <<0>> \o r)
MulDef(a, b) == IF Len(a) = 0 \/ Len(b) = 0 THEN <<>> ELSE NormDef(MulAux(a, b, 1))

\* bits
BitDef(a, i) == (BnDig(a, (i \div 8) + 1) \div (2 ^ (i % 8))) % 2     \* i >= 0, bit i (LSB = 0)
RECURSIVE BnLog2Small(_)
BnLog2Small(d) == IF d = 0 THEN 0 ELSE 1 + BnLog2Small(d \div 2)          \* bit length of a digit
BitLenDef(a) == IF Len(a) = 0 THEN 0 ELSE 8 * (Len(a) - 1) + BnLog2Small(a[Len(a)])

BnMul2(a) == AddDef(a, a)
RECURSIVE ShlDef(_, _)
ShlDef(a, k) == IF Len(a) = 0 THEN a
                ELSE IF k >= 8 THEN <<0>> \o ShlDef(a, k - 8)
                ELSE IF k = 0 THEN a ELSE ShlDef(BnMul2(a), k - 1)
RECURSIVE Div2Aux(_, _, _)
Div2Aux(a, i, c) == IF i = 0 THEN <<>>
                    ELSE Div2Aux(a, i-1, a[i] % 2) \o <<(a[i] + c * BnB) \div 2>>
BnDiv2(a) == NormDef(Div2Aux(a, Len(a), 0))
RECURSIVE ShrDef(_, _)
ShrDef(a, k) == IF Len(a) = 0 THEN a
                ELSE IF k >= 8 THEN ShrDef(Tail(a), k - 8)
                ELSE IF k = 0 THEN a ELSE ShrDef(BnDiv2(a), k - 1)

\* long division, one bit at a time: <<quotient, remainder>>; b # 0
RECURSIVE DivModAux(_, _, _, _, _)
DivModAux(a, b, i, q, r) ==
    IF i < 0 THEN <<q, r>>
    ELSE LET r2 == AddDef(BnMul2(r), IF BitDef(a, i) = 1 THEN <<1>> ELSE <<>>)
             ge == CmpDef(r2, b) >= 0
         IN  DivModAux(a, b, i-1,
                       AddDef(BnMul2(q), IF ge THEN <<1>> ELSE <<>>),
                       IF ge THEN SubDef(r2, b) ELSE r2)
DivModDef(a, b) == DivModAux(a, b, BitLenDef(a) - 1, <<>>, <<>>)
DivDef(a, b) == DivModDef(a, b)[1]
ModDef(a, b) == DivModDef(a, b)[2]

RECURSIVE ModPowAux(_, _, _, _, _)
ModPowAux(a, e, m, i, acc) ==
    IF i < 0 THEN acc
    ELSE LET sq == ModDef(MulDef(acc, acc), m)
         IN  ModPowAux(a, e, m, i-1, IF BitDef(e, i) = 1 THEN ModDef(MulDef(sq, a), m) ELSE sq)
\* a^e mod m, m # 0 (m = 1 gives 0)
ModPowDef(a, e, m) == ModPowAux(ModDef(a, m), e, m, BitLenDef(e) - 1, ModDef(<<1>>, m))

RECURSIVE GcdDef(_, _)
GcdDef(a, b) == IF Len(b) = 0 THEN a ELSE GcdDef(b, ModDef(a, b))

\* modular inverse by the extended Euclidean algorithm on (r, s) pairs with
\* s kept reduced mod m; result <<>> (= 0) when gcd(a, m) # 1
RECURSIVE ModInvAux(_, _, _, _, _)
ModInvAux(r0, r1, s0, s1, m) ==
    IF Len(r1) = 0 THEN (IF r0 = <<1>> THEN s0 ELSE <<>>)
    ELSE LET qr == DivModDef(r0, r1)
             qs == ModDef(MulDef(qr[1], s1), m)
             s2 == IF CmpDef(s0, qs) >= 0 THEN SubDef(s0, qs) ELSE SubDef(AddDef(s0, m), qs)
         IN  ModInvAux(r1, qr[2], s1, s2, m)
ModInvDef(a, m) == IF m = <<1>> THEN <<>> ELSE ModInvAux(m, ModDef(a, m), <<>>, <<1>>, m)

Pow2Def(k) == ShlDef(<<1>>, k)

RECURSIVE BitOpAux(_, _, _, _)
\* op: 1 = and, 2 = or, 3 = xor, digit-wise through bits
BnDigBitOp(x, y, op) ==
    LET RECURSIVE go(_, _, _)
        go(u, v, w) == IF w = 256 THEN 0
                       ELSE LET bu == u % 2  bv == v % 2
                                bit == CASE op = 1 -> bu * bv
                                         [] op = 2 -> IF bu + bv > 0 THEN 1 ELSE 0
                                         [] OTHER  -> (bu + bv) % 2
                            IN  bit * w + go(u \div 2, v \div 2, w * 2)
    IN go(x, y, 1)
BitOpAux(a, b, i, op) == IF i > BnMaxI(Len(a), Len(b)) THEN <<>>
                         ELSE <<BnDigBitOp(BnDig(a, i), BnDig(b, i), op)>> \o BitOpAux(a, b, i+1, op)
AndDef(a, b) == NormDef(BitOpAux(a, b, 1, 1))
OrDef(a, b)  == NormDef(BitOpAux(a, b, 1, 2))
XorDef(a, b) == NormDef(BitOpAux(a, b, 1, 3))

\* a as exactly n little-endian bytes (a < 256^n assumed; higher digits are dropped)
ToBytesLEDef(a, n) == [i \in 1..n |-> BnDig(a, i)]
BnReverse(s) == [i \in 1..Len(s) |-> s[Len(s) + 1 - i]]

RECURSIVE FromDecimalAux(_, _, _)
\* s: sequence of decimal digits 0..9, most significant first
FromDecimalAux(s, i, acc) ==
    IF i > Len(s) THEN acc
    ELSE FromDecimalAux(s, i+1, AddDef(MulDef(acc, <<10>>), IF s[i] = 0 THEN <<>> ELSE <<s[i]>>))
FromDecimalDef(s) == FromDecimalAux(s, 1, <<>>)
RECURSIVE ToDecimalDef(_)
ToDecimalDef(a) == IF Len(a) = 0 THEN <<>>
                   ELSE LET qr == DivModDef(a, <<10>>)
                        IN  ToDecimalDef(qr[1]) \o <<IF Len(qr[2]) = 0 THEN 0 ELSE qr[2][1]>>

-----------------------------------------------------------------------------
(* The operators used by every other module.  Overridden in Java.           *)
BnNorm(s)          == NormDef(s)
BnFromInt(n)       == FromIntDef(n)
BnToInt(a)         == ToIntDef(a)
BnAdd(a, b)        == AddDef(a, b)
BnSub(a, b)        == SubDef(a, b)
BnCmp(a, b)        == CmpDef(a, b)
BnMul(a, b)        == MulDef(a, b)
BnDiv(a, b)        == DivDef(a, b)
BnMod(a, b)        == ModDef(a, b)
BnModPow(a, e, m)  == ModPowDef(a, e, m)
BnModInv(a, m)     == ModInvDef(a, m)
BnGcd(a, b)        == GcdDef(a, b)
BnShl(a, k)        == ShlDef(a, k)
BnShr(a, k)        == ShrDef(a, k)
BnBit(a, i)        == BitDef(a, i)
BnBitLen(a)        == BitLenDef(a)
BnPow2(k)          == Pow2Def(k)
BnAnd(a, b)        == AndDef(a, b)
BnOr(a, b)         == OrDef(a, b)
BnXor(a, b)        == XorDef(a, b)
BnToBytesLE(a, n)  == ToBytesLEDef(a, n)
BnFromDecimal(s)   == FromDecimalDef(s)
BnToDecimal(a)     == ToDecimalDef(a)

BnLt(a, b) == BnCmp(a, b) < 0
BnLe(a, b) == BnCmp(a, b) <= 0
=============================================================================
