--------------------------------- MODULE Num ---------------------------------
(***************************************************************************)
(* One arithmetic interface for the whole specification.                   *)
(*   BIG = FALSE : numbers are TLC integers (toy configurations; every      *)
(*                 modulus is < 46341 so that products fit in 32 bits)      *)
(*   BIG = TRUE  : numbers are BigNat values (full-size configurations)     *)
(* Small quantities (indices, bit positions, byte counts, shift amounts,    *)
(* window sizes) are always TLC integers.                                   *)
(***************************************************************************)
EXTENDS Integers, Sequences, BigNat, SequencesExt

CONSTANT BIG

\* the sequence hi, hi-1, ..., lo (empty when hi < lo)
DownTo(hi, lo) == [j \in 1..(hi - lo + 1) |-> hi + 1 - j] \o <<>>
UpTo(lo, hi)   == [j \in 1..(hi - lo + 1) |-> lo + j - 1] \o <<>>

N(n)        == IF BIG THEN BnFromInt(n) ELSE n          \* literal n >= 0
NZero       == N(0)
NOne        == N(1)
NIsZero(a)  == IF BIG THEN a = <<>> ELSE a = 0
NAdd(a, b)  == IF BIG THEN BnAdd(a, b) ELSE a + b
NSub(a, b)  == IF BIG THEN BnSub(a, b) ELSE (IF a >= b THEN a - b ELSE 0)   \* monus
NMul(a, b)  == IF BIG THEN BnMul(a, b) ELSE a * b
NDiv(a, b)  == IF BIG THEN BnDiv(a, b) ELSE a \div b
NMod(a, b)  == IF BIG THEN BnMod(a, b) ELSE a % b
NCmp(a, b)  == IF BIG THEN BnCmp(a, b) ELSE (IF a < b THEN -1 ELSE IF a > b THEN 1 ELSE 0)
NLt(a, b)   == NCmp(a, b) < 0
NLe(a, b)   == NCmp(a, b) <= 0
NMin(a, b)  == IF NLe(a, b) THEN a ELSE b
NIsNum(a)   == IF BIG THEN IsBigNat(a) ELSE a \in Nat

RECURSIVE IntBitLen(_)
IntBitLen(n) == IF n = 0 THEN 0 ELSE 1 + IntBitLen(n \div 2)
NBitLen(a)  == IF BIG THEN BnBitLen(a) ELSE IntBitLen(a)
NBit(a, i)  == IF BIG THEN BnBit(a, i) ELSE (IF i > 30 THEN 0 ELSE (a \div (2 ^ i)) % 2)
NIsOdd(a)   == NBit(a, 0) = 1
NHalf(a)    == IF BIG THEN BnShr(a, 1) ELSE a \div 2
NShr(a, k)  == IF BIG THEN BnShr(a, k) ELSE (IF k > 30 THEN 0 ELSE a \div (2 ^ k))
NShl(a, k)  == IF BIG THEN BnShl(a, k) ELSE a * (2 ^ k)
NPow2(k)    == IF BIG THEN BnPow2(k) ELSE 2 ^ k
NToInt(a)   == IF BIG THEN BnToInt(a) ELSE a

\* a^e mod m (m >= 1); toy: square-and-multiply on the bits of e
RECURSIVE IntModPow(_, _, _)
IntModPow(a, e, m) == IF e = 0 THEN 1 % m
                      ELSE LET h == IntModPow(a, e \div 2, m)
                               s == (h * h) % m
                           IN  IF e % 2 = 1 THEN (s * (a % m)) % m ELSE s
NModPow(a, e, m) == IF BIG THEN BnModPow(a, e, m) ELSE IntModPow(a, e, m)

\* inverse of a modulo m, 0 when it does not exist; toy: extended Euclid on integers
RECURSIVE IntEgcd(_, _, _, _)
IntEgcd(r0, r1, s0, s1) == IF r1 = 0 THEN <<r0, s0>>
                           ELSE LET q == r0 \div r1 IN IntEgcd(r1, r0 - q * r1, s1, s0 - q * s1)
IntModInv(a, m) == IF m = 1 THEN 0
                   ELSE LET g == IntEgcd(m, a % m, 0, 1) IN IF g[1] = 1 THEN g[2] % m ELSE 0
NModInv(a, m) == IF BIG THEN BnModInv(a, m) ELSE IntModInv(a, m)

RECURSIVE IntGcd(_, _)
IntGcd(a, b) == IF b = 0 THEN a ELSE IntGcd(b, a % b)
NGcd(a, b) == IF BIG THEN BnGcd(a, b) ELSE IntGcd(a, b)

\* bytes (little endian).  Toy numbers fit 4 bytes.
RECURSIVE IntToBytesLE(_, _)
IntToBytesLE(a, n) == IF n = 0 THEN <<>> ELSE <<a % 256>> \o IntToBytesLE(a \div 256, n - 1)
NToBytesLE(a, n) == IF BIG THEN BnToBytesLE(a, n) ELSE IntToBytesLE(a, n)
\* value of a little-endian byte string reduced modulo m (Horner from the top byte, so
\* that toy values never leave the 32-bit range)
NBytesLEMod(bs, m) == IF BIG THEN BnMod(BnNorm(bs), m)
                      ELSE FoldLeft(LAMBDA acc, i : (acc * 256 + bs[i]) % m, 0, DownTo(Len(bs), 1))
\* exact value of a little-endian byte string (toy: must fit)
RECURSIVE IntFromBytesLE(_, _)
IntFromBytesLE(bs, i) == IF i > Len(bs) THEN 0 ELSE bs[i] + 256 * IntFromBytesLE(bs, i + 1)
NFromBytesLE(bs) == IF BIG THEN BnNorm(bs) ELSE IntFromBytesLE(bs, 1)

SeqReverse(s) == [i \in 1..Len(s) |-> s[Len(s) + 1 - i]] \o <<>>
=============================================================================
