------------------------------- MODULE VerifIO -------------------------------
(* EmitLine(s): append the string s as one line to the file $EMIT_FILE.       *)
(* Overridden in Java (spec/java/VerifIO.java); the TLA+ definition prints.   *)
EXTENDS TLC
EmitLine(s) == PrintT(s)
=============================================================================
