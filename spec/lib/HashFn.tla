-------------------------------- MODULE HashFn --------------------------------
(* The hash function H of RFC 9380 is a PARAMETER of the specification (the RFC   *)
(* itself leaves it abstract).  These operators are bound to the JVM's SHA-2 by   *)
(* spec/java/HashFn.java; the TLA+ bodies only fix the output length.             *)
EXTENDS Naturals, Sequences
Sha256(bytes) == [i \in 1..32 |-> 0]
Sha384(bytes) == [i \in 1..48 |-> 0]
Sha512(bytes) == [i \in 1..64 |-> 0]
=============================================================================
