-------------------------------- MODULE Tower --------------------------------
(***************************************************************************)
(* Prime fields and towers of binomial extensions                          *)
(*        F_0 = F_p,   F_k = F_{k-1}[X] / (X^d_k - nr_k)                    *)
(* defined from first principles (integers modulo p, schoolbook polynomial  *)
(* arithmetic modulo the binomial).  A field is a record                    *)
(*        [p |-> modulus, lv |-> << [deg |-> d_1, nr |-> nr_1], ... >>]     *)
(* and every operator takes the field F and the level k of its operands.    *)
(* An element of level 0 is a number in 0..p-1, an element of level k is a  *)
(* sequence of d_k elements of level k-1 (coefficient of X^0 first).        *)
(* Nothing here is taken from the implementation.                           *)
(***************************************************************************)
EXTENDS Num, SequencesExt

PrimeF(p) == [p |-> p, lv |-> <<>>]

\* TLC evaluates [i \in 1..d |-> e] lazily (the body is re-evaluated at every application),
\* which is exponential for chained field operations; tuples are evaluated eagerly.
Mk(d, f(_)) == IF d = 2 THEN <<f(1), f(2)>>
               ELSE IF d = 3 THEN <<f(1), f(2), f(3)>>
               ELSE [i \in 1..d |-> f(i)] \o <<>>
Top(F)    == Len(F.lv)
Deg(F, k) == F.lv[k].deg
NR(F, k)  == F.lv[k].nr

----------------------------------------------------------------------------
(* level 0: integers modulo p *)
FpAdd(p, a, b) == NMod(NAdd(a, b), p)
FpSub(p, a, b) == NMod(NSub(NAdd(a, p), b), p)
FpNeg(p, a)    == IF NIsZero(a) THEN a ELSE NSub(p, a)
FpMul(p, a, b) == NMod(NMul(a, b), p)
FpInv(p, a)    == NModInv(a, p)                     \* 0 for a = 0 (callers test)
FpPow(p, a, e) == NModPow(a, e, p)
FpHalfOrder(p) == NHalf(NSub(p, NOne))              \* (p-1)/2
\* Euler's criterion: 0, 1 or -1
FpLegendre(p, a) == IF NIsZero(a) THEN 0
                    ELSE IF FpPow(p, a, FpHalfOrder(p)) = NOne THEN 1 ELSE -1

----------------------------------------------------------------------------
RECURSIVE TZero(_, _), TOne(_, _), TIsZero(_, _, _), TAddD(_, _, _, _), TSubD(_, _, _, _),
          TNegD(_, _, _), TMulD(_, _, _, _), TMulGenD(_, _, _, _), TInvD(_, _, _), TNormDownD(_, _, _),
          TFromPrime(_, _, _), TFlatten(_, _, _), TIsElem(_, _, _), TMulPrime(_, _, _, _)

TZero(F, k) == IF k = 0 THEN NZero ELSE Mk(Deg(F, k), LAMBDA i : TZero(F, k-1))
TOne(F, k)  == IF k = 0 THEN NOne
               ELSE Mk(Deg(F, k), LAMBDA i : IF i = 1 THEN TOne(F, k-1) ELSE TZero(F, k-1))
TIsZero(F, k, a) == a = TZero(F, k)
TIsElem(F, k, a) == IF k = 0 THEN NIsNum(a) /\ NLt(a, F.p)
                    ELSE /\ DOMAIN a = 1..Deg(F, k)
                         /\ \A i \in 1..Deg(F, k) : TIsElem(F, k-1, a[i])

TAddD(F, k, a, b) == IF k = 0 THEN FpAdd(F.p, a, b)
                    ELSE Mk(Deg(F, k), LAMBDA i : TAddD(F, k-1, a[i], b[i]))
TSubD(F, k, a, b) == IF k = 0 THEN FpSub(F.p, a, b)
                    ELSE Mk(Deg(F, k), LAMBDA i : TSubD(F, k-1, a[i], b[i]))
TNegD(F, k, a)    == IF k = 0 THEN FpNeg(F.p, a)
                    ELSE Mk(Deg(F, k), LAMBDA i : TNegD(F, k-1, a[i]))
TDblD(F, k, a)    == TAddD(F, k, a, a)

\* schoolbook product in F_{k-1}[X], then X^d = nr
RECURSIVE TConvD(_, _, _, _, _, _)
\* sum_{i >= i0} a_i * b_{m-i}  (0-based coefficient indices, both below d)
TConvD(F, k, a, b, m, i) ==
    LET d == Deg(F, k) IN
    IF i > d - 1 \/ i > m THEN TZero(F, k-1)
    ELSE IF m - i > d - 1 THEN TConvD(F, k, a, b, m, i + 1)
    ELSE TAddD(F, k-1, TMulD(F, k-1, a[i+1], b[m-i+1]), TConvD(F, k, a, b, m, i + 1))
\* The generic schoolbook product (any degree) is TMulGen; for degrees 2 and 3 the same sums
\* are written out (TLC evaluates them several times faster); MC_Field checks TMul = TMulGen.
TMulGenD(F, k, a, b) ==
    IF k = 0 THEN FpMul(F.p, a, b)
    ELSE LET d == Deg(F, k)
             c(m) == TConvD(F, k, a, b, m, 0)      \* coefficient of X^m, m = 0 .. 2d-2
         IN  Mk(d, LAMBDA m :
                 IF m - 1 + d <= 2*d - 2
                 THEN TAddD(F, k-1, c(m-1), TMulD(F, k-1, NR(F, k), c(m-1+d)))
                 ELSE c(m-1))
TMulD(F, k, a, b) ==
    IF k = 0 THEN FpMul(F.p, a, b)
    ELSE LET M(x, y) == TMulD(F, k-1, x, y)
             A(x, y) == TAddD(F, k-1, x, y)
             nr == NR(F, k)
         IN  IF Deg(F, k) = 2
             THEN \* (a1 + a2 X)(b1 + b2 X) = a1 b1 + nr a2 b2 + (a1 b2 + a2 b1) X
                  <<A(M(a[1], b[1]), M(nr, M(a[2], b[2]))),
                    A(M(a[1], b[2]), M(a[2], b[1]))>>
             ELSE IF Deg(F, k) = 3
             THEN <<A(M(a[1], b[1]), M(nr, A(M(a[2], b[3]), M(a[3], b[2])))),
                    A(A(M(a[1], b[2]), M(a[2], b[1])), M(nr, M(a[3], b[3]))),
                    A(A(M(a[1], b[3]), M(a[2], b[2])), M(a[3], b[1]))>>
             ELSE TMulGenD(F, k, a, b)
TSqrD(F, k, a) == TMulD(F, k, a, a)

\* multiply an element of level k by an element of the prime field / of level j <= k
TMulPrime(F, k, a, s) == IF k = 0 THEN FpMul(F.p, a, s)
                         ELSE Mk(Deg(F, k), LAMBDA i : TMulPrime(F, k-1, a[i], s))
RECURSIVE TMulLevel(_, _, _, _, _)
TMulLevel(F, k, a, j, s) == IF k = j THEN TMulD(F, k, a, s)
                            ELSE Mk(Deg(F, k), LAMBDA i : TMulLevel(F, k-1, a[i], j, s))

\* embeddings
TFromPrime(F, k, s) == IF k = 0 THEN s
                       ELSE Mk(Deg(F, k), LAMBDA i : IF i = 1 THEN TFromPrime(F, k-1, s) ELSE TZero(F, k-1))
RECURSIVE TFromLevel(_, _, _, _)
TFromLevel(F, k, j, s) == IF k = j THEN s
                          ELSE Mk(Deg(F, k), LAMBDA i : IF i = 1 THEN TFromLevel(F, k-1, j, s) ELSE TZero(F, k-1))

\* norm from level k down to level k-1 (product of the conjugates over F_{k-1})
\* d = 2:  a0^2 - nr a1^2        d = 3:  a0^3 + nr a1^3 + nr^2 a2^3 - 3 nr a0 a1 a2
TNormDownD(F, k, a) ==
    LET M(x, y) == TMulD(F, k-1, x, y)
        A(x, y) == TAddD(F, k-1, x, y)
        S(x, y) == TSubD(F, k-1, x, y)
        nr == NR(F, k)
    IN  IF Deg(F, k) = 2
        THEN S(M(a[1], a[1]), M(nr, M(a[2], a[2])))
        ELSE LET t0 == S(M(a[1], a[1]), M(nr, M(a[2], a[3])))
                 t1 == S(M(nr, M(a[3], a[3])), M(a[1], a[2]))
                 t2 == S(M(a[2], a[2]), M(a[1], a[3]))
             IN  A(M(a[1], t0), M(nr, A(M(a[3], t1), M(a[2], t2))))

\* inverse (zero for zero): conjugate / adjugate divided by the norm, recursively
TInvD(F, k, a) ==
    IF k = 0 THEN FpInv(F.p, a)
    ELSE LET M(x, y) == TMulD(F, k-1, x, y)
             S(x, y) == TSubD(F, k-1, x, y)
             nr == NR(F, k)
             ni == TInvD(F, k-1, TNormDownD(F, k, a))
         IN  IF Deg(F, k) = 2
             THEN <<M(a[1], ni), M(TNegD(F, k-1, a[2]), ni)>>
             ELSE LET t0 == S(M(a[1], a[1]), M(nr, M(a[2], a[3])))
                      t1 == S(M(nr, M(a[3], a[3])), M(a[1], a[2]))
                      t2 == S(M(a[2], a[2]), M(a[1], a[3]))
                  IN  <<M(t0, ni), M(t1, ni), M(t2, ni)>>


----------------------------------------------------------------------------
(* The operators used by the rest of the specification.  Their definitions are the pure ones  *)
(* above (suffix D); spec/java/Tower.java overrides them with the same schoolbook arithmetic   *)
(* on java.math.BigInteger, because TLC's interpretation overhead (~20 us per base-field       *)
(* operation) makes nested tower arithmetic two orders of magnitude slower.  The overrides are  *)
(* accelerators, not oracles: MC_TowerSelfTest checks Op = OpD on every toy tower and on        *)
(* full-size random operands.                                                                  *)
TAdd(F, k, a, b)   == TAddD(F, k, a, b)
TSub(F, k, a, b)   == TSubD(F, k, a, b)
TNeg(F, k, a)      == TNegD(F, k, a)
TMul(F, k, a, b)   == TMulD(F, k, a, b)
TInv(F, k, a)      == TInvD(F, k, a)
TNormDown(F, k, a) == TNormDownD(F, k, a)
TSqr(F, k, a)      == TMul(F, k, a, a)
TDbl(F, k, a)      == TAdd(F, k, a, a)

\* a^e for a number e >= 0: square-and-multiply from the top bit.  Written as a fold (not as a
\* recursive operator): TLC's evaluation context grows with the recursion depth and lookups
\* walk it linearly, which makes 400-level recursions quadratic; FoldLeft iterates in Java.
TPowD(F, k, a, e) ==
    IF k = 0 THEN FpPow(F.p, a, e)
    ELSE FoldLeft(LAMBDA acc, i : LET sq == TMulD(F, k, acc, acc)
                                  IN  IF NBit(e, i) = 1 THEN TMulD(F, k, sq, a) ELSE sq,
                  TOne(F, k), DownTo(NBitLen(e) - 1, 0))
TPow(F, k, a, e) == TPowD(F, k, a, e)       \* overridden in Java

\* Frobenius: x |-> x^(p^n) (DEFINITION; the implementation uses coefficient tables).
\* TFrobRaw applies the p-th power n times; since x^(p^deg) = x in a field with p^deg elements
\* (checked by TLC on every toy tower, axiom FrobPeriod in MC_Field) n is reduced modulo deg.
RECURSIVE TFrobRaw(_, _, _, _)
TFrobRaw(F, k, a, n) == IF n = 0 THEN a ELSE TFrobRaw(F, k, TPow(F, k, a, F.p), n - 1)
\* absolute extension degree of level k and coordinates over the prime field, in the
\* order of Field::to_base_prime_field_elements (c0's coordinates first)
RECURSIVE TExtDeg(_, _)
TExtDeg(F, k) == IF k = 0 THEN 1 ELSE Deg(F, k) * TExtDeg(F, k-1)
RECURSIVE ConcatAll(_, _)
ConcatAll(ss, i) == IF i > Len(ss) THEN <<>> ELSE ss[i] \o ConcatAll(ss, i + 1)
TFlatten(F, k, a) == IF k = 0 THEN <<a>>
                     ELSE ConcatAll(Mk(Deg(F, k), LAMBDA i : TFlatten(F, k-1, a[i])), 1)
RECURSIVE TUnflatten(_, _, _)
TUnflatten(F, k, s) ==
    IF k = 0 THEN s[1]
    ELSE LET w == TExtDeg(F, k-1)
         IN  Mk(Deg(F, k), LAMBDA i : TUnflatten(F, k-1, SubSeq(s, (i-1)*w + 1, i*w)))

\* all elements (toy sizes only)
RECURSIVE TElems(_, _)
TElems(F, k) == IF k = 0 THEN 0..(F.p - 1)
                ELSE [1..Deg(F, k) -> TElems(F, k-1)]

\* order of the multiplicative group as a number: p^deg - 1
RECURSIVE NPowInt(_, _)
NPowInt(a, n) == IF n = 0 THEN NOne ELSE NMul(a, NPowInt(a, n - 1))
TOrder(F, k) == NPowInt(F.p, TExtDeg(F, k))

\* squareness: Euler's criterion in F_k,  a^((q-1)/2) = 1 ...
TIsSquareEuler(F, k, a) == \/ TIsZero(F, k, a)
                           \/ TPow(F, k, a, NHalf(NSub(TOrder(F, k), NOne))) = TOne(F, k)
\* ... evaluated by descending with the relative norm: a^((q^d-1)/2) = N(a)^((q-1)/2), so a is a
\* square in F_k iff its norm is a square in F_{k-1} (MC_Field checks both against \E y : y^2 = a)
RECURSIVE TIsSquare(_, _, _)
TIsSquare(F, k, a) == IF k = 0 THEN FpLegendre(F.p, a) >= 0
                      ELSE TIsSquare(F, k-1, TNormDown(F, k, a))

TFrob(F, k, a, n) == TFrobRaw(F, k, a, n % TExtDeg(F, k))

\* ---- structure used by the tower-specific operations of the code
\* conjugate over the level below (quadratic top level): (c0, -c1)
TConj(F, k, a) == <<a[1], TNeg(F, k-1, a[2])>>
\* Phi_n(p) for the total extension degree n of level k (n in {2, 3, 4, 6, 12}): the order of the cyclotomic subgroup
CycPhi(F, k) ==
    LET n == TExtDeg(F, k)  p == F.p  p2 == NMul(p, p) IN
    CASE n = 2 -> NAdd(p, NOne)
      [] n = 3 -> NAdd(NAdd(p2, p), NOne)
      [] n = 4 -> NAdd(p2, NOne)
      [] n = 6 -> NAdd(NSub(p2, p), NOne)
      [] n = 12 -> NAdd(NSub(NMul(p2, p2), p2), NOne)
InCyc(F, k, a) == ~TIsZero(F, k, a) /\ TPow(F, k, a, CycPhi(F, k)) = TOne(F, k)
\* sparse elements named by slots: for a cubic top level the slots 0..2 are its coordinates (coefficients of level k-1);
\* for a quadratic level over a cubic one the slots 0..5 are (c0.c0, c0.c1, c0.c2, c1.c0, c1.c1, c1.c2) (coefficients of level k-2)
SlotCoef(F, lvl, slots, cs, t) == IF \E i \in 1..Len(slots) : slots[i] = t THEN cs[CHOOSE i \in 1..Len(slots) : slots[i] = t] ELSE TZero(F, lvl)
SlotLevel(F, k) == IF Deg(F, k) = 3 THEN k - 1 ELSE k - 2
SlotElem(F, k, slots, cs) ==
    IF Deg(F, k) = 3 THEN <<SlotCoef(F, k-1, slots, cs, 0), SlotCoef(F, k-1, slots, cs, 1), SlotCoef(F, k-1, slots, cs, 2)>>
    ELSE << <<SlotCoef(F, k-2, slots, cs, 0), SlotCoef(F, k-2, slots, cs, 1), SlotCoef(F, k-2, slots, cs, 2)>>,
            <<SlotCoef(F, k-2, slots, cs, 3), SlotCoef(F, k-2, slots, cs, 4), SlotCoef(F, k-2, slots, cs, 5)>> >>

\* comparison: the implementation documents "lexicographic, highest coefficient first"
RECURSIVE TCmp(_, _, _, _)
RECURSIVE TCmpFrom(_, _, _, _, _)
TCmpFrom(F, k, a, b, i) == IF i = 0 THEN 0
                           ELSE LET c == TCmp(F, k-1, a[i], b[i])
                                IN  IF c # 0 THEN c ELSE TCmpFrom(F, k, a, b, i - 1)
TCmp(F, k, a, b) == IF k = 0 THEN NCmp(a, b) ELSE TCmpFrom(F, k, a, b, Deg(F, k))
=============================================================================
